"""Shared machinery: process isolation, TLC runner, verdict bookkeeping, evidence.

Exit codes of every check: 0 = held on everything explored (possibly with KNOWN-FINDING lines),
1 = at least one VIOLATION line, 2 = machinery error (never a verdict about osyris).
"""
import atexit
import json
import os
import re
import shutil
import subprocess
import sys
import time

VERIF = os.path.dirname(os.path.dirname(os.path.abspath(__file__)))
REPO = os.environ.get("VERIF_REPO", "/repo")
TLA = os.path.join(VERIF, "tla")
WORK = os.path.join(VERIF, ".work", str(os.getpid()))


def is_vector(obj):
    """public API only: a Vector has component attributes x, y, z"""
    return hasattr(obj, "nvec") and hasattr(obj, "x")


def comps_of(obj):
    """components of a Vector as {'x': Array, ...} (public attributes), or {'': obj} for an Array"""
    if is_vector(obj):
        return {c: getattr(obj, c) for c in "xyz" if getattr(obj, c, None) is not None}
    return {"": obj}


class MachineryError(Exception):
    pass


def isolate():
    """Fresh HOME (osyris copies config/defaults.py into ~/.osyris on first import and then
    prefers the copy), the working tree first on sys.path, hooks on."""
    os.makedirs(WORK, exist_ok=True)
    home = os.path.join(WORK, "home")
    os.makedirs(home, exist_ok=True)
    os.environ["HOME"] = home
    os.environ["MPLBACKEND"] = "Agg"
    os.environ["OSYRIS_VERIF"] = "1"
    os.environ.setdefault("PYTHONHASHSEED", "0")
    os.environ.setdefault("NUMBA_CACHE_DIR", os.path.join(WORK, "numba"))
    src = os.path.join(REPO, "src")
    sys.path[:] = [p for p in sys.path if os.path.abspath(p or ".") != src]
    sys.path.insert(0, src)
    atexit.register(cleanup)


def cleanup():
    shutil.rmtree(WORK, ignore_errors=True)
    try:
        os.rmdir(os.path.dirname(WORK))
    except OSError:
        pass


def child_env(extra=None):
    env = dict(os.environ)
    env["PYTHONPATH"] = os.path.join(REPO, "src") + os.pathsep + VERIF
    if extra:
        env.update({k: str(v) for k, v in extra.items()})
    return env


# --------------------------------------------------------------------------- TLC

_STATS = re.compile(r"(\d+) states generated, (\d+) distinct states found")


class TlcResult:
    def __init__(self, out, rc, wall, cmd):
        self.out, self.rc, self.wall, self.cmd = out, rc, wall, cmd
        m = _STATS.findall(out)
        self.generated = int(m[-1][0]) if m else 0
        self.distinct = int(m[-1][1]) if m else 0
        self.violated = [l for l in out.splitlines() if "is violated" in l or "Error:" in l]

    def json_lines(self):
        """Objects printed with PrintT(ToJson(x)) (one JSON string literal per line)."""
        res = []
        for line in self.out.splitlines():
            if line.startswith('"{') or line.startswith('"['):
                try:
                    res.append(json.loads(json.loads(line)))
                except Exception as e:  # pragma: no cover
                    raise MachineryError(f"unparsable TLC JSON line: {line[:200]} ({e})")
        return res

    def tuples(self, tag):
        """Lines printed with PrintT(<<"tag", ...>>) -> list of python lists (ints/strings only)."""
        res = []
        for line in self.out.splitlines():
            if line.startswith('<<"' + tag + '"'):
                body = line.strip()[2:-2]
                items = []
                for tok in re.findall(r'"[^"]*"|-?\d+|TRUE|FALSE', body):
                    if tok.startswith('"'):
                        items.append(tok[1:-1])
                    elif tok in ("TRUE", "FALSE"):
                        items.append(tok == "TRUE")
                    else:
                        items.append(int(tok))
                res.append(items)
        return res

    def coverage(self):
        """per-action counts from -coverage output: {action: (distinct, generated)}"""
        cov = {}
        for m in re.finditer(r"<(\w+) line \d+, col \d+ to line \d+, col \d+ of module \w+>: (\d+):(\d+)", self.out):
            name, a, b = m.group(1), int(m.group(2)), int(m.group(3))
            old = cov.get(name, (0, 0))
            cov[name] = (old[0] + a, old[1] + b)
        return cov


def run_tlc(module, cfg, env=None, workers=16, timeout=1800, simulate=None, depth=None, seed=None,
            coverage=False, expect_ok=True, dfid=None, extra=()):
    """Run TLC on tla/<module>.tla with tla/cfg/<cfg>. Returns TlcResult.
    expect_ok: a TLC run that does not finish cleanly is a machinery error, unless the caller
    wants to interpret invariant violations itself (expect_ok=False)."""
    meta = os.path.join(WORK, "tlc", f"{module}-{cfg}-{time.time_ns()}")
    os.makedirs(meta, exist_ok=True)
    cmd = ["java", "-XX:+UseParallelGC", "-Xss64m", "-Xmx12g",
           "-cp", "/opt/veriftools/tla/tla2tools.jar:/opt/veriftools/tla/CommunityModules-deps.jar",
           "tlc2.TLC", "-workers", str(workers), "-metadir", meta, "-noGenerateSpecTE",
           "-config", os.path.join(TLA, "cfg", cfg)]
    if simulate:
        cmd += ["-simulate", simulate]
    if depth:
        cmd += ["-depth", str(depth)]
    if seed is not None:
        cmd += ["-seed", str(seed)]
    if coverage:
        cmd += ["-coverage", "1"]
    if dfid:
        cmd += ["-dfid", str(dfid)]
    cmd += list(extra) + [os.path.join(TLA, module + ".tla")]
    e = dict(os.environ)
    e.pop("JAVA_TOOL_OPTIONS", None)
    if env:
        e.update({k: str(v) for k, v in env.items()})
    t0 = time.time()
    try:
        p = subprocess.run(cmd, env=e, cwd=TLA, capture_output=True, text=True, timeout=timeout)
    except subprocess.TimeoutExpired:
        subprocess.run(["pkill", "-f", meta], check=False)
        raise MachineryError(f"TLC timed out after {timeout}s: {module}/{cfg}")
    finally:
        shutil.rmtree(meta, ignore_errors=True)
    res = TlcResult(p.stdout + p.stderr, p.returncode, time.time() - t0, " ".join(cmd[cmd.index("tlc2.TLC"):]))
    if expect_ok and (p.returncode != 0 or "Model checking completed. No error has been found" not in res.out
                      and "Finished in" not in res.out):
        raise MachineryError(f"TLC failed on {module}/{cfg} rc={p.returncode}:\n" + res.out[-4000:])
    if expect_ok and res.violated:
        raise MachineryError(f"TLC reported an error on {module}/{cfg}:\n" + "\n".join(res.violated[:5]) + "\n" + res.out[-3000:])
    return res


# --------------------------------------------------------------------------- verdicts

def load_known():
    path = os.path.join(VERIF, "known_findings.json")
    if not os.path.exists(path):
        return []
    with open(path) as f:
        return json.load(f)["findings"]


class Report:
    """Collects the outcome of one check run."""

    def __init__(self, pid, tier, seed):
        self.pid, self.tier, self.seed = pid, tier, seed
        self.t0 = time.time()
        self.known = [k for k in load_known() if k["property"] == pid and k.get("status") == "open"]
        self.known_hit = {}
        self.violations = []
        self.cov = {"states": 0, "transitions": 0, "traces_validated_against_impl": 0, "samples": [],
                    "evaluations": 0, "distinct_nontrivial": 0, "rule": "", "tlc_runs": [], "parts": {}}
        self.assumptions = []
        self._distinct = set()
        rdir = os.path.join(VERIF, "replay", pid)
        if os.path.isdir(rdir):
            for f in os.listdir(rdir):
                if f.startswith(tier + "-"):
                    try:
                        os.remove(os.path.join(rdir, f))
                    except OSError:      # another run of the same check is cleaning up at the same time
                        pass

    # -- coverage bookkeeping
    def tlc(self, res, label):
        self.cov["states"] += res.distinct
        self.cov["transitions"] += res.generated
        self.cov["tlc_runs"].append({"label": label, "cmd": res.cmd, "distinct_states": res.distinct,
                                     "states_generated": res.generated, "wall_s": round(res.wall, 1)})

    def case(self, klass=None, nontrivial=True):
        """one implementation execution compared against the spec"""
        self.cov["evaluations"] += 1
        if nontrivial and klass is not None:
            self._distinct.add(klass if isinstance(klass, (str, int, tuple)) else json.dumps(klass, sort_keys=True, default=str))

    def validated(self, n=1):
        self.cov["traces_validated_against_impl"] += n

    def sample(self, obj, limit=4):
        if len(self.cov["samples"]) < limit:
            self.cov["samples"].append(obj)

    def part(self, name, **kw):
        self.cov["parts"].setdefault(name, {}).update(kw)

    # -- mismatches
    def mismatch(self, sig, detail, case=None, module=None):
        """sig: dict of classification fields; detail: human readable first differing field."""
        for k in self.known:
            if all(sig.get(f) == v for f, v in k["signature"].items()):
                self.known_hit.setdefault(k["key"], [k, 0, detail])
                self.known_hit[k["key"]][1] += 1
                return "known"
        self.violations.append({"sig": sig, "detail": detail, "case": case, "module": module})
        return "violation"

    def finish(self, level="model_checking", explanation=None):
        self.cov["distinct_nontrivial"] = len(self._distinct)
        wall = time.time() - self.t0
        for key, (k, n, detail) in self.known_hit.items():
            print(f"KNOWN-FINDING: property={self.pid} {k['what_fails']} [{key}; {n} case(s) this run]")
        rdir = os.path.join(VERIF, "replay", self.pid)
        shown = {}
        for v in self.violations:
            sk = json.dumps(v["sig"], sort_keys=True, default=str)
            if sk in shown:
                shown[sk][1] += 1
                continue
            os.makedirs(rdir, exist_ok=True)
            path = os.path.join(rdir, f"{self.tier}-{len(shown) + 1}.json")
            with open(path, "w") as f:
                json.dump({"property": self.pid, "module": v["module"], "sig": v["sig"], "detail": v["detail"],
                           "case": v["case"], "rerun": f"./check {self.pid} --replay {path}"}, f, indent=1, default=str)
            shown[sk] = [path, 1, v]
        for sk, (path, n, v) in list(shown.items())[:25]:
            print(f"VIOLATION property={self.pid} replay={path}")
            print(f"  {n} case(s): {v['detail']}"[:600])
        cov = dict(self.cov)
        cov["known_findings_hit"] = {k: v[1] for k, v in self.known_hit.items()}
        if explanation:
            cov["explanation"] = explanation
        if not cov["samples"]:
            cov["samples"] = ["(no case sampled)"]
        ev = {"property_id": self.pid, "tier": self.tier, "seed": self.seed, "level": level, "coverage": cov,
              "assumptions": self.assumptions, "wall_s": round(wall, 1), "violations": len(self.violations)}
        os.makedirs(os.path.join(VERIF, "evidence"), exist_ok=True)
        with open(os.path.join(VERIF, "evidence", f"{self.pid}.json"), "w") as f:
            json.dump(ev, f, indent=1, default=str)
        print(f"{self.pid} {self.tier}: {cov['evaluations']} implementation cases, {cov['states']} TLC states, "
              f"{cov['traces_validated_against_impl']} traces/behaviours validated, "
              f"{len(self.violations)} violation(s), {len(self.known_hit)} known finding(s), {wall:.1f}s")
        return 1 if self.violations else 0


def diff(a, b, path="", tol=None):
    """first difference between two JSON-like values (numbers compared numerically)."""
    num = (int, float)
    if isinstance(a, num) and isinstance(b, num) and not isinstance(a, bool) and not isinstance(b, bool):
        if a == b:
            return None
        if tol is not None and abs(a - b) <= tol * max(abs(a), abs(b)):
            return None
        return f"{path}: spec {a!r} != impl {b!r}"
    if type(a) != type(b):
        return f"{path}: spec {a!r} != impl {b!r}"
    if isinstance(a, dict):
        for k in sorted(set(a) | set(b)):
            if k not in a or k not in b:
                return f"{path}.{k}: present only in {'spec' if k in a else 'impl'}"
            d = diff(a[k], b[k], f"{path}.{k}", tol)
            if d:
                return d
        return None
    if isinstance(a, list):
        if len(a) != len(b):
            return f"{path}: length spec {len(a)} != impl {len(b)} ({a!r} vs {b!r})"[:400]
        for i, (x, y) in enumerate(zip(a, b)):
            d = diff(x, y, f"{path}[{i}]", tol)
            if d:
                return d
        return None
    return None if a == b else f"{path}: spec {a!r} != impl {b!r}"
