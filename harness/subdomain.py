"""C16: scenarios of tla/Subdomain.tla replayed through osyris.extract_sphere / extract_box."""
import copy
import warnings

from . import common
from .common import MachineryError
from .units_map import sparse_of_pint

UNITS = [("cm", 1.0), ("m", 0.01), ("mm", 10.0)]


def build(sc, pts, k):
    import numpy as np
    import osyris
    ds = osyris.Dataset()
    truth = {}
    for g, p in zip(sc["lay"], pts):
        dg = osyris.Datagroup()
        n = len(p) if g["pos"] >= 0 else (3 if g["pos"] == -1 else 6)
        if g["pos"] > 0:
            dg["position"] = osyris.Vector(*[np.array([float(q[d]) for q in p]) for d in range(sc.get("nd", 3))], unit="cm")
        dg["mass"] = osyris.Array(np.arange(1, n + 1, dtype=float) * 10 + len(g["name"]), unit="g")
        dg["velocity"] = osyris.Vector(np.arange(n, dtype=float), np.arange(n, dtype=float) * 2 + 1, np.arange(n, dtype=float) - 5, unit="km/s")
        dg["id"] = osyris.Array(np.arange(100, 100 + n, dtype=np.int64))
        ds[g["name"]] = dg
        truth[g["name"]] = n
    ds.meta["time"] = 3.0 * osyris.units("s")
    ds.meta["note"] = ["keep", k]
    return ds, truth


def snap(ds):
    import numpy as np
    out = {"meta": copy.deepcopy(dict(ds.meta)), "keys": list(ds.keys()), "groups": {}}
    for name, g in ds.items():
        out["groups"][name] = {k: ([c._array.copy() for c in common.comps_of(v).values()], str(v.unit), v.name, id(v)) for k, v in g.items()}
    return out


def same_snap(a, b):
    import numpy as np
    if a["keys"] != b["keys"] or str(a["meta"]) != str(b["meta"]):
        return False
    for name in a["groups"]:
        ga, gb = a["groups"][name], b["groups"].get(name)
        if gb is None or list(ga) != list(gb):
            return False
        for k in ga:
            if ga[k][1:] != gb[k][1:] or any(not np.array_equal(x, y) for x, y in zip(ga[k][0], gb[k][0])):
                return False
    return True


def run_c16(rep, tier, seed):
    import numpy as np
    import osyris
    res = common.run_tlc("Subdomain", "Subdomain.cfg", workers=4, timeout=600)
    rep.tlc(res, "Subdomain scenarios")
    recs = res.json_lines()
    if not recs:
        raise MachineryError("no subdomain scenario emitted")
    U = osyris.units
    nvar = 3 if tier == "quick" else 9
    for i, r in enumerate(recs):
        sc = r["sc"]
        for k in range(nvar):
            uo, fo = UNITS[(i + k) % 3]
            ur, fr = UNITS[(i + 2 * k + 1) % 3]
            ds, truth = build(sc, r["pts"], k)
            if k % 3 == 2 and "mesh" in ds.keys():
                # the same groups also sit in another Dataset whose mesh is a different one: the extraction reads the dataset it is given
                other = ds.copy()
                other["mesh"] = ds["mesh"][::-1]
                other_keep = other             # noqa: F841  keep it alive during the call
            if k % 3 == 1:
                # one Array object held under two keys of a group (its name is the key of the last insertion): both
                # variables must come back, each under its key
                g0 = ds[list(ds.keys())[-1]]
                g0["second_key"] = g0[list(g0.keys())[-1]]
            before = snap(ds)
            origin = osyris.Vector(*[float(x) * fo for x in sc["o"][:sc.get("nd", 3)]], unit=uo)
            rep.case(klass=(sc["kind"], i, uo, ur, sc.get("nd", 3)))
            try:
                with warnings.catch_warnings():
                    warnings.simplefilter("ignore")
                    if sc["kind"] == "sphere":
                        rad = osyris.Array(float(sc["r"]) * fr, unit=ur) if k % 2 else float(sc["r"]) * fr * U(ur)
                        out = osyris.extract_sphere(ds, radius=rad, origin=origin)
                    else:
                        # every size in its own length unit
                        sizes = []
                        for d, b in enumerate(sc["b"]):
                            ud, fd = UNITS[(i + 2 * k + 1 + d) % 3]
                            sizes.append(osyris.Array(float(b) * fd, unit=ud) if (k + d + i) % 3 else float(b) * fd * U(ud))
                        out = osyris.extract_box(ds, dx=sizes[0], dy=sizes[1], dz=sizes[2], origin=origin)
            except Exception as e:
                rep.mismatch({"module": "Subdomain", "kind": sc["kind"], "field": "raises"}, f"{describe(sc)} origin unit {uo} size unit {ur}: raised {type(e).__name__}: {e}", case={"rec": r, "k": k}, module="subdomain")
                continue
            d = None
            if not same_snap(before, snap(ds)):
                d = "input: the input dataset was modified"
            want = [e["name"] for e in r["exp"] if e["present"]]
            if d is None and sorted(out.keys()) != sorted(want):
                d = f"groups: expected {sorted(want)} got {sorted(out.keys())}"
            if d is None:
                for e in r["exp"]:
                    if not e["present"]:
                        continue
                    rows = [x - 1 for x in e["rows"]]
                    src, got = ds[e["name"]], out[e["name"]]
                    if list(got.keys()) != list(src.keys()):
                        d = f"group {e['name']}: variables {list(got.keys())} != {list(src.keys())}"
                        break
                    for key in src.keys():
                        sv, gv = src[key], got[key]
                        sc_, gc = (list(common.comps_of(sv).values()), list(common.comps_of(gv).values()))
                        if len(sc_) != len(gc) or sparse_of_pint(sv.unit) != sparse_of_pint(gv.unit) or gv.name != key:
                            d = f"group {e['name']} variable {key}: kind/unit/name changed ({gv.unit}, {gv.name!r})"
                            break
                        for a, b in zip(sc_, gc):
                            if not np.array_equal(a._array[rows], b._array):
                                d = f"group {e['name']} variable {key}: rows {b._array.tolist()} != rows {e['rows']} of the input {a._array[rows].tolist()}"
                                break
                        if d:
                            break
                    if d:
                        break
            if d is None:
                if str(dict(out.meta)) != str(dict(ds.meta)):
                    d = "meta: metadata not carried over"
                elif out.meta is ds.meta:
                    d = "meta: metadata dict is shared with the input"
            if d:
                rep.mismatch({"module": "Subdomain", "kind": sc["kind"], "field": d.split(":")[0]}, f"{describe(sc)} origin unit {uo} size unit {ur}: {d}", case={"rec": r, "k": k}, module="subdomain")
            else:
                rep.validated()
    rep.sample({"scenario": recs[0]["sc"], "expected": recs[0]["exp"]}, limit=2)
    rep.cov["rule"] = ("Subdomain.tla enumerates group layouts (own positions, borrowed mesh positions, no position, same row count as the mesh with different own positions, groups listed before the mesh) x point sets x origins x "
                       "radii / box sizes with rows exactly on the boundary, and states the kept rows per group; each scenario runs with origin and sizes in cm/m/mm given as Array or Quantity; "
                       "distinct = (kind, scenario, units)")
    rep.assumptions += ["integer coordinates: the distance comparisons are exact in float64"]


def describe(sc):
    return f"{sc['kind']} layout {[g['name'] + ':' + str(g['pos']) for g in sc['lay']]} origin {sc['o']} " + (f"radius {sc['r']}" if sc["kind"] == "sphere" else f"sizes {sc['b']}")


def replay(rep, rec):
    print("replay: re-run ./check C16; case:", str(rec.get("case"))[:500])
