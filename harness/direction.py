"""C18: scenarios of tla/Direction.tla replayed through osyris.plot.direction.get_direction."""
import contextlib
import io
import math

from . import common
from .common import MachineryError


def comps(v):
    import numpy as np
    return [float(np.asarray(c.values)) for c in (v.x, v.y, v.z)]


def dot(a, b):
    return sum(x * y for x, y in zip(a, b))


def cross(a, b):
    return [a[1] * b[2] - a[2] * b[1], a[2] * b[0] - a[0] * b[2], a[0] * b[1] - a[1] * b[0]]


def norm(a):
    return math.sqrt(dot(a, a))


def parallel(a, b, tol=1e-11):
    na, nb = norm(a), norm(b)
    return na > 0 and nb > 0 and norm(cross(a, b)) <= tol * na * nb and dot(a, b) > 0


def run_c18(rep, tier, seed):
    import numpy as np
    import osyris
    from osyris.plot.direction import get_direction
    res = common.run_tlc("Direction", "Direction.cfg", workers=4, timeout=600)
    rep.tlc(res, "Direction scenarios")
    recs = res.json_lines()
    if not recs:
        raise MachineryError("no direction scenario emitted")
    V = osyris.Vector
    scales = [(1.0, None), (2.0 ** -40, "cm"), (2.0 ** 40, "km/s"), (3.0, "g")]
    for i, sc in enumerate(recs):
        kind = sc["kind"]
        variants = range(len(scales)) if kind in ("normal", "vectorbasis") else range(2)
        for k in variants:
            rep.case(klass=(kind, i, k))
            try:
                with contextlib.redirect_stdout(io.StringIO()):
                    if kind == "letter":
                        arg = sc["arg"] if k == 0 else sc["arg"].upper()
                        b = get_direction(arg)
                    elif kind == "triple":
                        s = "".join(sc["arg"])
                        arg = s if k == 0 else (s.upper() if i % 2 else s[0].upper() + s[1:])
                        b = get_direction(arg)
                    elif kind == "normal":
                        f, unit = scales[k]
                        cvals = [float(x) * f for x in sc["arg"]]
                        if k == 0 and i % 3 == 0:
                            cvals = [int(x) if j % 2 == 0 else float(x) for j, x in enumerate(sc["arg"])]      # Python ints and floats mixed
                        elif k == 0 and i % 3 == 1:
                            cvals = [np.float32(x) for x in sc["arg"]]                                          # one element of a float32 field
                        arg = V(*cvals, unit=unit)
                        b = get_direction(arg)
                    elif kind == "vectorbasis":
                        f, unit = scales[k]
                        vb = osyris.VectorBasis(n=V(*[float(x) * f for x in sc["b"]["n"]], unit=unit), u=V(*[float(x) * f for x in sc["b"]["u"]], unit=unit),
                                                v=V(*[float(x) * f for x in sc["b"]["v"]], unit=unit))
                        arg = "VectorBasis"
                        b = get_direction(vb)
                    else:
                        d = sc["arg"]
                        L = [(1.0, "cm"), (0.01, "m")][k]
                        dg = osyris.Datagroup()
                        cells = d["cells"]
                        dg["position"] = V(*[np.array([float(c["p"][j]) for c in cells]) for j in range(3)], unit="cm")
                        dg["velocity"] = V(*[np.array([float(c["v"][j]) for c in cells]) for j in range(3)], unit="km/s")
                        dg["mass"] = osyris.Array(np.array([float(c["m"]) for c in cells]), unit="g")
                        rad = 2.0 * math.sqrt(d["r2"])
                        win = rad * L[0] * osyris.units(L[1])
                        arg = kind if k == 0 else kind.upper()
                        b = get_direction(arg, data=dg, dx=win, dy=win, origin=V(*[float(x) * L[0] for x in d["o"]], unit=L[1]))
                        # the same data and window around the second origin
                        b2 = get_direction(arg, data=dg, dx=win, dy=win, origin=V(*[float(x) * L[0] for x in d["o2"]], unit=L[1]))
                        n2 = comps(b2.n)
                        req2 = [float(x) for x in sc["req2"]]
                        if (kind == "top" and not parallel(n2, req2)) or (kind == "side" and abs(dot(n2, req2)) > 1e-11 * norm(req2)):
                            rep.mismatch({"module": "Direction", "kind": kind, "field": "second-origin"},
                                         f"{kind} disc {i}: asked again around origin {d['o2']} the basis n = {n2} does not follow the angular momentum {req2} of that region",
                                         case={"sc": sc, "k": k}, module="direction")
            except Exception as e:
                rep.mismatch({"module": "Direction", "kind": kind, "field": "raises"}, f"{kind} {sc['arg'] if kind not in ('top', 'side') else ''} variant {k}: raised {type(e).__name__}: {e}",
                             case={"sc": sc, "k": k}, module="direction")
                continue
            n, u, v = comps(b.n), comps(b.u), comps(b.v)
            d = None
            # directions are pure numbers whatever the requested normal measures (an angular momentum, a velocity): a basis
            # carrying a unit cannot be combined with positions
            for name, bv in (("n", b.n), ("u", b.u), ("v", b.v)):
                if d is None and not bv.unit.dimensionless:
                    d = f"unit: basis vector {name} carries the unit {bv.unit}"
            # single-precision input gives a single-precision basis
            tol = 1e-6 if any(str(getattr(cc, "dtype", "")) == "float32" for cc in common.comps_of(b.n).values()) else 1e-12
            for name, vec in (("n", n), ("u", u), ("v", v)):
                if not abs(norm(vec) - 1.0) <= tol:
                    d = f"unit-length: |{name}| = {norm(vec)!r}"
            if d is None and max(abs(dot(n, u)), abs(dot(n, v)), abs(dot(u, v))) > tol:
                d = f"perpendicular: n.u={dot(n, u)!r} n.v={dot(n, v)!r} u.v={dot(u, v)!r}"
            req = [float(x) for x in sc["req"]]
            ptol = max(tol * 10, 1e-11)
            if d is None and kind != "side" and not parallel(n, req, ptol):
                d = f"normal: n = {n} is not parallel (same sense) to the requested {req}"
            if d is None and kind in ("letter", "normal", "top") and not parallel(cross(u, v), n, ptol):
                d = f"handedness: u x v = {cross(u, v)} is not n = {n}"
            if d is None and kind == "triple" and not (parallel(u, [float(x) for x in sc["b"]["u"]]) and parallel(v, [float(x) for x in sc["b"]["v"]])):
                d = f"axes: u = {u}, v = {v} are not the named axes"
            if d is None and kind == "vectorbasis" and not (parallel(u, [float(x) for x in sc["b"]["u"]]) and parallel(v, [float(x) for x in sc["b"]["v"]])):
                d = f"axes: u = {u}, v = {v} are not the given basis vectors"
            if d is None and kind == "side":
                if abs(dot(n, req)) > 1e-11 * norm(req):
                    d = f"side: the angular momentum {req} is not in the image plane (n = {n})"
            if d:
                rep.mismatch({"module": "Direction", "kind": kind, "field": d.split(":")[0]}, f"{kind} {sc['arg'] if kind not in ('top', 'side') else 'disc ' + str(i)} variant {k}: {d}",
                             case={"sc": sc, "k": k}, module="direction")
            else:
                rep.validated()
    rep.sample({"scenario": {k: recs[20][k] for k in ("kind", "arg", "req")}, "integer_basis": recs[20]["b"]}, limit=2)
    rep.cov["rule"] = ("Direction.tla enumerates letters, all six triples (any case), all 342 non-zero integer normals in (-3..3)^3 (scaled by 2^-40, 1, 2^40 and with units), VectorBases, and discs with net angular "
                       "momentum for 'top'/'side'; TLC proves orthogonality / right-handedness / parallelism of the integer vectors exactly; the harness checks unit length and perpendicularity to 1e-12 and the "
                       "orientation relations the property states; distinct = (kind, scenario, variant)")
    rep.assumptions += ["component ratios up to 3 and overall scales 2^-40..2^40; extreme ranges where x*x overflows or underflows are not claimed"]


def replay(rep, rec):
    print("replay: re-run ./check C18; case:", str(rec.get("case"))[:400])
