"""C02 / C07 / C08 / C10: the case lattice of tla/ArrayMachine.tla executed on real osyris Arrays.
TLC enumerates the cases, computes the discrete outcome (raises? unit, boolean, exact conversion factor) and checks
the invariants of the rule; this module builds the operands, performs the operation through the public API and
compares exception, unit, dtype kind, shape and values (exact Fractions from the independent unit table)."""
import json
import multiprocessing as mp
import operator
import os
import random
from fractions import Fraction as F

from . import common
from .common import MachineryError
from .units_map import CGS, rat, sparse_of_pint

SHAPE = {"s0": (), "s2": (2,), "s12": (1, 2), "s22": (2, 2), "s21": (2, 1), "s3": (3,), "s23": (2, 3)}
NPDT = {"f8": "float64", "f4": "float32", "i8": "int64", "i4": "int32", "b1": "bool", "u4": "uint32"}
UNITSTR = {"1": "dimensionless", "m": "m", "cm": "cm", "km": "km", "s": "s", "min": "min", "g": "g", "kg": "kg", "m/s": "m/s", "km/h": "km/hour",
           "g/cm3": "g/cm**3", "kg/m3": "kg/m**3", "erg": "erg", "J": "J", "K": "K", "au": "au", "pc": "pc", "M_sun": "M_sun", "yr": "year",
           "L_sun": "L_sun", "W": "W", "m2": "m**2", "cm3": "cm**3", "m/cm": "m/cm", "pc3": "pc**3", "au3": "au**3"}
SPARSE = {"1": [], "m": [["m", 1]], "cm": [["cm", 1]], "km": [["km", 1]], "s": [["s", 1]], "min": [["min", 1]], "g": [["g", 1]], "kg": [["kg", 1]],
          "m/s": [["m", 1], ["s", -1]], "km/h": [["km", 1], ["h", -1]], "g/cm3": [["cm", -3], ["g", 1]], "kg/m3": [["m", -3], ["kg", 1]],
          "erg": [["erg", 1]], "J": [["J", 1]], "K": [["K", 1]], "au": [["au", 1]], "pc": [["pc", 1]], "M_sun": [["M_sun", 1]], "yr": [["yr", 1]],
          "L_sun": [["L_sun", 1]], "W": [["W", 1]], "m2": [["m", 2]], "cm3": [["cm", 3]], "m/cm": [["cm", -1], ["m", 1]], "pc3": [["pc", 3]], "au3": [["au", 3]]}
# relative tolerance of the accepted value of astrophysical units (different sources differ at that level)
UNIT_TOL = {"M_sun": 5e-3, "M_earth": 5e-3, "M_jup": 5e-3, "R_sun": 5e-3, "R_earth": 5e-3, "R_jup": 5e-3, "ar": 1e-4, "pc": 1e-9, "L_sun": 1e-12, "au": 1e-12, "yr": 1e-12}
EPS = {"f8": 2.3e-16, "f4": 1.2e-7, "i8": 2.3e-16, "i4": 2.3e-16, "b1": 0, "u4": 2.3e-16}


def cgs(label):
    f = F(1)
    for n, e in SPARSE[label]:
        f *= CGS[n] ** e
    return f


def unit_tol(*labels):
    t = 0.0
    for lab in labels:
        for n, _ in SPARSE.get(lab, []):
            t = max(t, UNIT_TOL.get(n, 0.0))
    return t


# value sets (Fractions; exactly representable in every dtype that uses them)
FLOAT_SETS = [[F(3), F(1, 2), F(-3, 2), F(4)], [F(1), F(2), F(8), F(1, 4)], [F(-7), F(5, 2), F(1, 8), F(100)]]
INT_SETS = [[F(3), F(-2), F(7), F(5)], [F(1), F(2), F(4), F(10)], [F(-7), F(3), F(12), F(100)]]
BOOL_SETS = [[F(1), F(0), F(1), F(1)], [F(0), F(0), F(1), F(0)], [F(1), F(1), F(0), F(0)]]


def values_for(dt, shape, k, nonzero=False):
    import numpy as np
    sets = BOOL_SETS if dt == "b1" else (INT_SETS if dt[0] in "iu" else FLOAT_SETS)
    base = sets[k % len(sets)]
    if dt[0] == "u":
        base = [abs(v) for v in base]
    n = 1
    for s in SHAPE[shape]:
        n *= s
    vals = [base[(i + k) % 4] for i in range(n)]
    arr = np.array([float(v) if dt[0] == "f" else int(v) for v in vals], dtype=NPDT[dt]).reshape(SHAPE[shape])
    return vals, arr


def bcast_vals(vals, shape_from, shape_to):
    """broadcast a flat row-major list from one shape to another (numpy rules)"""
    import numpy as np
    a = np.array([float(v) for v in vals]).reshape(SHAPE[shape_from])
    idx = np.arange(len(vals)).reshape(SHAPE[shape_from])
    out = np.broadcast_to(idx, SHAPE[shape_to]).ravel().tolist()
    return [vals[i] for i in out]


def snapshot(x):
    import numpy as np
    import osyris
    if isinstance(x, osyris.Array):
        return ("A", x._array.copy(), str(x.unit), x._array.dtype.str, x.name)
    if isinstance(x, np.ndarray):
        return ("N", x.copy(), x.dtype.str)
    if hasattr(x, "magnitude"):
        return ("Q", np.array(x.magnitude, copy=True), str(x.units))
    return ("P", x)


def same_snapshot(a, b):
    import numpy as np
    if a[0] != b[0]:
        return False
    if a[0] == "P":
        return a[1] == b[1]
    try:
        same = np.array_equal(a[1], b[1], equal_nan=True)
    except TypeError:
        same = np.array_equal(a[1], b[1])
    return same and a[2:] == b[2:]


def close(fr, x, tol):
    try:
        fx = F(float(x))
    except (ValueError, OverflowError):
        return False
    return abs(fx - fr) <= F(tol) * max(abs(fr), abs(fx)) + F(1, 10 ** 300)


BIN = {"add": operator.add, "sub": operator.sub, "mul": operator.mul, "div": operator.truediv, "lt": operator.lt, "le": operator.le, "gt": operator.gt,
       "ge": operator.ge, "eq": operator.eq, "ne": operator.ne, "and": operator.and_, "or": operator.or_, "xor": operator.xor}


def exact_bin(op, l, r):
    if op == "add":
        return l + r
    if op == "sub":
        return l - r
    if op == "mul":
        return l * r
    if op == "div":
        return l / r
    if op == "lt":
        return F(int(l < r))
    if op == "le":
        return F(int(l <= r))
    if op == "gt":
        return F(int(l > r))
    if op == "ge":
        return F(int(l >= r))
    if op == "eq":
        return F(int(l == r))
    if op == "ne":
        return F(int(l != r))
    if op == "and":
        return F(int(bool(l) and bool(r)))
    if op == "or":
        return F(int(bool(l) or bool(r)))
    if op == "xor":
        return F(int(bool(l) != bool(r)))
    raise ValueError(op)


def check_result(res, o, exp_vals, exp_shape, dts, tol_units, kind_hint=None):
    """res: the Array returned; o: TLC outcome; exp_vals: flat Fractions in the result unit"""
    import numpy as np
    import osyris
    if not isinstance(res, osyris.Array):
        return f"result is {type(res).__name__}, not an Array"
    if o["unit"] != ["fractional"]:
        got = sparse_of_pint(res.unit)
        spec = [list(x) for x in o["unit"]]
        if got != spec:
            # another label is acceptable when it denotes the same physical quantity: same dimension, values scaled accordingly
            from .units_map import cgs_of_sparse, dim_of_sparse
            if any(n.startswith("?") for n, _ in got) or any(float(e) != int(e) for _, e in got):
                return f"unit: spec {spec} != impl {got}"
            if dim_of_sparse(got) != dim_of_sparse(spec):
                return f"unit: spec {spec} != impl {got} (different dimension)"
            scale = cgs_of_sparse(spec) / cgs_of_sparse(got)
            exp_vals = [None if v is None else v * scale for v in exp_vals]
            if o.get("bool"):
                return f"unit: spec {spec} != impl {got}"
    kind = res._array.dtype.kind
    if o.get("bool"):
        if kind != "b":
            return f"dtype: boolean result expected, got {res._array.dtype}"
    elif kind not in "iuf":
        return f"dtype: numeric result expected, got {res._array.dtype}"
    if tuple(res.shape) != tuple(exp_shape):
        return f"shape: spec {tuple(exp_shape)} != impl {tuple(res.shape)}"
    flat = np.atleast_1d(res._array).ravel().tolist()
    if len(flat) != len(exp_vals):
        return f"size: {len(flat)} != {len(exp_vals)}"
    eps = max(EPS[d] for d in dts) * 16 + tol_units
    if res._array.dtype == np.float32:
        eps = max(eps, EPS["f4"] * 16)
    for i, (e, g) in enumerate(zip(exp_vals, flat)):
        if o.get("bool"):
            if e is None:
                continue          # operands equal within rounding: either verdict is allowed
            if bool(g) != bool(e):
                return f"value[{i}]: spec {bool(e)} != impl {bool(g)}"
        elif not close(e, g, eps):
            return f"value[{i}]: spec {float(e)!r} != impl {g!r} (tolerance {eps:.1e})"
    return None


def run_case(rec, k):
    """returns (status, detail, signature extras)"""
    import numpy as np
    import osyris
    c, o, names = rec["c"], rec["o"], rec["names"]
    fam = c["fam"]
    A = osyris.Array
    lu = names["l"]
    if fam in ("units", "dtypes", "kinds", "shapes", "logic", "inplace"):
        ru = names["r"] if c["rk"] in ("arr", "qty") else "1"       # numbers and plain ndarrays are dimensionless
        lvals, larr = values_for(c["ldt"], c["ls"], k)
        rvals, rarr = values_for(c["rdt"] if c["rk"] in ("arr", "nd0", "nd1", "qty") else ("i8" if c["rk"] == "int" else "f8"), c["rs"], k + 1, nonzero=True)
        rvals = [v if v != 0 else F(2) for v in rvals] if c["op"] == "div" else rvals
        if c["op"] == "div":
            rarr = np.array([float(v) if rarr.dtype.kind == "f" else int(v) for v in rvals], dtype=rarr.dtype).reshape(rarr.shape)
        # comparisons: also exercise values that differ only after conversion
        conv = None
        if not o["raises"]:
            conv = cgs(ru) / cgs(lu) if sparse_dim_equal(lu, ru) else F(1)
            if fam == "dtypes" and c["rdt"][0] == "i" and conv >= 100 and k % 2 == 1 and c["op"] not in ("mul", "div"):
                # integers that fit their dtype but not once expressed in the left operand's unit (3e7 m = 3e9 cm)
                rvals = [F(30000000), F(25000000)][:len(rvals)] if len(rvals) <= 2 else rvals
                rarr = np.array([int(v) for v in rvals], dtype=rarr.dtype).reshape(rarr.shape)
            if o.get("conv"):
                if rat(o["conv"]) != conv:
                    raise MachineryError(f"unit table disagrees with Units.tla on {ru}->{lu}: {conv} vs {rat(o['conv'])}")
        if c["op"] in ("lt", "le", "gt", "ge", "eq", "ne") and conv is not None and c["rdt"][0] == "f" and c["ldt"][0] == "f" and k % 2 == 1:
            # right operand = left operand expressed in the right unit, scaled by 0.93 / 1 / 1.07 per element
            scale = [F(93, 100), F(1), F(107, 100), F(999999, 1000000)]      # also values that agree to six digits only
            lb = bcast_vals(lvals, c["ls"], c["rs"]) if SHAPE[c["rs"]] and len(lvals) <= len(rvals) and o.get("shape") == c["rs"] else None
            if lb is not None and c["rdt"] == "f8":
                rvals = [v / conv * scale[i % 4] for i, v in enumerate(lb)]
                rarr = np.array([float(v) for v in rvals], dtype=NPDT[c["rdt"]]).reshape(SHAPE[c["rs"]])
                rvals = [F(float(v)) for v in rarr.ravel().tolist()]
        special = None
        if fam == "inplace" and c["ldt"] == "f4" and c["rdt"] == "f8" and c["rk"] in ("arr", "qty", "nd1") and c["op"] in ("mul", "div") and k % 2 == 1 and not o.get("converted") and not o.get("raises"):
            # x is float32, y a float64 operand whose magnitude lies outside the float32 range while x op y does not
            special = "wide"
            e = 45 if c["op"] == "mul" else -45
            lvals = [F(10) ** -30 * 3, F(10) ** -30 * 5][:len(lvals)] if len(lvals) <= 2 else lvals
            rvals = [F(10) ** e * 2, F(10) ** e * 4][:len(rvals)] if len(rvals) <= 2 else rvals
            larr = np.array([float(v) for v in lvals], dtype=larr.dtype).reshape(larr.shape)
            lvals = [F(float(x)) for x in larr.ravel().tolist()]
            rarr = np.array([float(v) for v in rvals], dtype=rarr.dtype).reshape(rarr.shape)
        if fam == "kinds" and c["rk"] in ("int", "float") and k % 2 == 1:
            if c["op"] in ("mul", "add", "sub") and c["ldt"] in ("i4", "f4") and c["lu"] % 2 == 0:
                # a Python number too large for the Array's narrow dtype (the result is computed in 64 bits, as numpy does)
                special = "big"
                rvals = [F(100000)] if c["rk"] == "int" or c["ldt"] == "i4" else [F(10) ** 30]
                lvals = [F(50000), F(30000)][:len(lvals)] if len(lvals) <= 2 else lvals
                larr = np.array([int(v) if larr.dtype.kind in "iu" else float(v) for v in lvals], dtype=larr.dtype).reshape(larr.shape)
            elif c["rk"] == "int" and c["op"] in ("mul", "div") and c["ldt"] == "f8" and c["ru"] % 2 == 1:
                # a Python int beyond 64 bits (10**20, a scale factor typed without the dot): the same quantity as 1e20
                special = "huge"
                rvals = [F(10) ** 20]
            elif c["op"] != "div":
                special = "zero"          # the number zero is a dimensionless quantity like any other number
                rvals = [F(0)]
        if fam == "dtypes" and c["ldt"] == "i8" and c["rdt"] == "i8" and lu == ru and k % 2 == 1 and c["op"] in ("lt", "le", "gt", "ge", "eq", "ne"):
            # integers beyond 2**53 that differ by one (particle ids, Hilbert keys): compared exactly, not through float64
            special = "ids"
            lvals = [F(2 ** 53), F(2 ** 53 + 1)][:len(lvals)] if len(lvals) <= 2 else lvals
            rvals = [F(2 ** 53 + 1), F(2 ** 53 + 1)][:len(rvals)] if len(rvals) <= 2 else rvals
            larr = np.array([int(v) for v in lvals], dtype=larr.dtype).reshape(larr.shape)
            rarr = np.array([int(v) for v in rvals], dtype=rarr.dtype).reshape(rarr.shape)
        nan_at0 = special is None and c["op"] in ("lt", "le", "gt", "ge", "eq", "ne") and c["ldt"][0] == "f" and k % 2 == 0 and (c["lu"] + (c.get("ru") or 0)) % 3 == 0 and c["ls"] == o.get("shape")
        if nan_at0:
            # an undefined value compares False with everything (True for !=), as in numpy
            larr = larr.copy()
            larr.flat[0] = np.nan
        a = A(larr, unit=UNITSTR[lu])
        rk = c["rk"]
        if rk == "arr":
            b = A(rarr, unit=UNITSTR[ru])
        elif rk == "int":
            b = int(rvals[0])
        elif rk == "float":
            b = float(rvals[0]) if special != "zero" else (0.0 if k % 4 == 1 else -0.0)
        elif rk == "nd0":
            b = np.array(rarr.ravel()[0])
        elif rk == "nd1":
            b = rarr
        else:
            b = rarr * osyris.units(UNITSTR[ru])
        sa, sb = snapshot(a), snapshot(b)
        try:
            if fam == "inplace":
                import operator
                res = {"add": operator.iadd, "sub": operator.isub, "mul": operator.imul, "div": operator.itruediv}[c["op"]](a, b)
            else:
                res = BIN[c["op"]](a, b)
            raised = None
        except Exception as e:
            raised = e
        if fam == "inplace":
            if not same_snapshot(sb, snapshot(b)):
                return "mismatch", "x op= y modified y", {}
            if raised is not None and not same_snapshot(sa, snapshot(a)):
                return "mismatch", "a refused x op= y modified x", {}
            if raised is None and res is not a:
                return "mismatch", "x op= y did not keep the object x", {}
        elif not (same_snapshot(sa, snapshot(a)) and same_snapshot(sb, snapshot(b))):
            return "mismatch", "an operand was modified by the operation", {}
        if o["raises"]:
            if raised is None:
                return "mismatch", f"spec: raises ({o['why']}), implementation returned {res!r}", {}
            return "match", None, {}
        if raised is not None:
            return "mismatch", f"spec: returns a result with unit {o['unit']}, implementation raised {type(raised).__name__}: {raised}", {}
        exp_shape = SHAPE[o["shape"]]
        lb = bcast_vals(lvals, c["ls"], o["shape"])
        rb = bcast_vals(rvals, c["rs"], o["shape"])
        exp = [exact_bin(c["op"], l, r * conv) for l, r in zip(lb, rb)]
        if c["op"] in ("lt", "le", "gt", "ge", "eq", "ne") and o.get("converted"):
            exp = [None if abs(l - r * conv) <= F(1, 10 ** 12) * max(abs(l), abs(r * conv)) else e for e, l, r in zip(exp, lb, rb)]
        if nan_at0:
            exp[0] = F(1) if c["op"] == "ne" else F(0)
        hint = "f" if (c["op"] == "div" or c["ldt"][0] == "f" or (rk != "int" and c["rdt"][0] == "f" and rk != "float") or rk == "float" or o.get("converted")) and not o.get("bool") else None
        d = check_result(res, o, exp, exp_shape, [c["ldt"], c["rdt"]], unit_tol(lu, ru) if o.get("converted") else 0.0, hint)
        # verdicts that sit within the tolerance of a unit's accepted value are not decided
        if d and o.get("bool") and unit_tol(lu, ru) > 0:
            return "match", None, {}
        return ("mismatch", d, {}) if d else ("match", None, {})
    if fam == "unary":
        lvals, larr = values_for(c["ldt"], c["ls"], k)
        op = c["op"]
        if op == "pow2f" and c["ldt"] == "i4" and k % 2 == 1:
            # whole-number float exponents do not turn the computation into integer arithmetic: 50000**2.0 is 2.5e9
            lvals = [F(50000), F(30000), F(-40000), F(46341)][:len(lvals)] if len(lvals) <= 4 else lvals
            larr = np.array([int(v) for v in lvals], dtype=larr.dtype).reshape(larr.shape)
        if op in ("powm1", "powm1f", "powm2", "rdiv2", "rdivf", "rdivnd", "sqrt"):
            lvals = [abs(v) if v != 0 else F(2) for v in lvals]
            roots = list(lvals)
            if op == "sqrt":
                lvals = [v * v for v in lvals]
            larr = np.array([float(v) if larr.dtype.kind == "f" else int(v) for v in lvals], dtype=larr.dtype).reshape(larr.shape)
        if op in ("powm1", "powm2") and c["ldt"][0] == "i":
            return "skip", None, {}     # numpy refuses integers to negative integer powers: not a unit question
        a = A(larr, unit=UNITSTR[lu])
        sa = snapshot(a)
        nd = np.array([2.0, 4.0]) if c["ls"] != "s0" and SHAPE[c["ls"]][-1] == 2 else np.array(2.0)
        fn = {"neg": lambda: -a, "pow2": lambda: a ** 2, "pow2nd": lambda: (a ** np.array(2) if k % 2 else np.power(a, np.array(2))), "pow3": lambda: a ** 3, "pow2f": lambda: a ** 2.0, "powm1f": lambda: a ** -1.0, "pow2q": lambda: a ** (2 * osyris.units("dimensionless")), "pow2s": lambda: a ** A(0.02, unit="m/cm"), "pow3a": lambda: a ** A(3.0 if k % 2 else 3),
              "powdim": lambda: a ** A(2.0, unit="s"), "raddnd": lambda: (nd + a if k % 2 else np.float64(2.0) + a), "rsubnd": lambda: (nd - a if k % 2 else np.float64(2.0) - a),
              "rltnd": lambda: (nd < a if k % 2 else np.float64(2.0) < a), "pow0": lambda: a ** 0, "powm1": lambda: a ** -1, "powm2": lambda: a ** -2,
              "sqrt": lambda: (a ** 0.5 if k % 2 else np.sqrt(a)), "rmul2": lambda: 2 * a, "rmulf": lambda: 0.5 * a, "rdiv2": lambda: 2 / a, "rdivf": lambda: 0.5 / a,
              "rdivnd": lambda: nd / a, "rmulnd": lambda: nd * a, "invert": lambda: ~a}[op]
        try:
            res = fn()
        except Exception as e:
            if o.get("raises"):
                return ("match", None, {}) if same_snapshot(sa, snapshot(a)) else ("mismatch", "the operand was modified by the refused operation", {})
            return "mismatch", f"spec: returns a result, implementation raised {type(e).__name__}: {e}", {}
        if o.get("raises"):
            return "mismatch", f"spec: refuses ({o.get('why')}), implementation returned {res!r}", {}
        if not same_snapshot(sa, snapshot(a)):
            return "mismatch", "the operand was modified by the operation", {}
        ndv = [F(2), F(4)] if nd.shape else [F(2)]
        n = len(lvals)
        ndb = [ndv[i % len(ndv)] for i in range(n)]
        exp = {"neg": [-v for v in lvals], "pow2": [v ** 2 for v in lvals], "pow2nd": [v ** 2 for v in lvals], "pow3": [v ** 3 for v in lvals], "pow2f": [v ** 2 for v in lvals], "powm1f": [1 / v for v in lvals] if op == "powm1f" else None, "pow2q": [v ** 2 for v in lvals], "pow2s": [v ** 2 for v in lvals], "pow3a": [v ** 3 for v in lvals], "powdim": None, "raddnd": None, "rsubnd": None, "rltnd": None, "pow0": [F(1)] * n,
               "powm1": [1 / v for v in lvals] if op == "powm1" else None, "powm2": [1 / v ** 2 for v in lvals] if op == "powm2" else None,
               "sqrt": roots if op == "sqrt" else None, "rmul2": [2 * v for v in lvals], "rmulf": [v / 2 for v in lvals],
               "rdiv2": [2 / v for v in lvals] if op == "rdiv2" else None, "rdivf": [F(1, 2) / v for v in lvals] if op == "rdivf" else None,
               "rdivnd": [x / v for x, v in zip(ndb, lvals)] if op == "rdivnd" else None, "rmulnd": [x * v for x, v in zip(ndb, lvals)],
               "invert": [F(int(not bool(v))) for v in lvals]}[op]
        if op in ("raddnd", "rsubnd", "rltnd"):
            fu = cgs(lu)                           # the Array's unit as a pure number (1, or 100 for m/cm)
            left = ndb if k % 2 else [F(2)] * n
            if op == "raddnd":
                exp = [(x + v * fu) / fu for x, v in zip(left, lvals)]
            elif op == "rsubnd":
                exp = [(x - v * fu) / fu for x, v in zip(left, lvals)]
            else:
                exp = [None if x == v * fu else F(int(x < v * fu)) for x, v in zip(left, lvals)]
        d = check_result(res, o, exp, SHAPE[c["ls"]], [c["ldt"]], 0.0, "f" if op in ("raddnd", "rsubnd") else None)
        if d is None and o["unit"] == ["fractional"]:
            sq = res * res
            if sparse_of_pint(sq.unit) != SPARSE[lu]:
                d = f"unit: the square of the root has unit {sq.unit}, expected {UNITSTR[lu]}"
        return ("mismatch", d, {}) if d else ("match", None, {})
    if fam == "to":
        ru = names["r"]
        lvals, larr = values_for(c["ldt"], c["ls"], k)
        a = A(larr, unit=UNITSTR[lu])
        sa = snapshot(a)
        target = UNITSTR[ru] if k % 2 == 0 else osyris.units(UNITSTR[ru])
        try:
            res = a.to(target)
            raised = None
        except Exception as e:
            raised = e
        if not same_snapshot(sa, snapshot(a)):
            return "mismatch", "a.to() modified its source", {}
        # the rule does not depend on how many elements there are: an Array without elements is refused / relabelled alike
        for empty in (np.zeros((0,)), np.zeros((2, 0))):
            try:
                re_ = A(empty, unit=UNITSTR[lu]).to(target)
                if o["raises"]:
                    return "mismatch", f"spec: conversion {lu}->{ru} raises, an Array of shape {empty.shape} was converted to {re_.unit}", {}
                if sparse_of_pint(re_.unit) != SPARSE[ru] or re_.shape != empty.shape:
                    return "mismatch", f"conversion of an Array of shape {empty.shape}: unit {re_.unit}, shape {re_.shape}", {}
            except Exception as e:
                if not o["raises"]:
                    return "mismatch", f"conversion {lu}->{ru} of an Array of shape {empty.shape} raised {type(e).__name__}: {e}", {}
        if o["raises"]:
            return ("match", None, {}) if raised is not None else ("mismatch", f"spec: conversion {lu}->{ru} raises, implementation returned {res!r}", {})
        if raised is not None:
            return "mismatch", f"spec: conversion {lu}->{ru} succeeds, implementation raised {type(raised).__name__}: {raised}", {}
        conv = cgs(lu) / cgs(ru)
        if o.get("conv") and rat(o["conv"]) != conv:
            raise MachineryError(f"unit table disagrees with Units.tla on {lu}->{ru}")
        d = check_result(res, dict(o, bool=False), [v * conv for v in lvals], SHAPE[c["ls"]], [c["ldt"]], unit_tol(lu, ru), "f" if not o["same"] else None)
        if d is None and not o["same"]:
            # the result must not alias the source, and converting back reproduces the values
            if np.shares_memory(res._array, a._array):
                d = "the converted Array shares its buffer with the source"
            else:
                back = res.to(UNITSTR[lu])
                for x, y in zip(np.atleast_1d(back._array).ravel().tolist(), lvals):
                    if not close(y, x, 64 * EPS[c["ldt"]] + 1e-15):
                        d = f"round trip {lu}->{ru}->{lu}: {float(y)!r} became {x!r}"
                        break
        return ("mismatch", d, {}) if d else ("match", None, {})
    if fam == "chain":
        mu, ru = names["m"], names["r"]
        if o["ab"]["raises"] or o["bc"]["raises"]:
            return "skip", None, {}
        lvals, larr = values_for(c["ldt"], c["ls"], k)
        a = A(larr, unit=UNITSTR[lu])
        try:
            via = a.to(UNITSTR[mu]).to(UNITSTR[ru])
            direct = a.to(UNITSTR[ru])
        except Exception as e:
            return "mismatch", f"chain {lu}->{mu}->{ru} raised {type(e).__name__}: {e}", {}
        conv = cgs(lu) / cgs(ru)
        for x, y, v in zip(np.atleast_1d(via._array).tolist(), np.atleast_1d(direct._array).tolist(), lvals):
            if abs(x - y) > 1e-14 * max(abs(x), abs(y)):
                return "mismatch", f"chain {lu}->{mu}->{ru} gives {x!r}, direct conversion {y!r}", {}
            if not close(v * conv, y, 1e-14 + unit_tol(lu, ru)):
                return "mismatch", f"conversion {lu}->{ru} of {float(v)} gives {y!r}, exact {float(v * conv)!r}", {}
        if sparse_of_pint(via.unit) != SPARSE[ru]:
            return "mismatch", f"chain result unit {via.unit}", {}
        return "match", None, {}
    if fam == "np":
        from . import arrays_np
        return arrays_np.run_np_case(rec, k)
    if fam == "ophist":
        ru = names["r"]
        lvals = [F(4), F(8)]
        rvals = [F(2), F(16)]
        a = A(np.array([float(v) for v in lvals]), unit=UNITSTR[lu])
        b = A(np.array([float(v) for v in rvals]), unit=UNITSTR[ru])
        conv = cgs(ru) / cgs(lu) if sparse_dim_equal(lu, ru) else F(1)
        try:
            _ = a * 3.0                                  # use the Array once before its unit changes
            if c["mut"] == "imul":
                a *= b
                now = [x * y * conv for x, y in zip(lvals, rvals)]
            else:
                a /= b
                now = [x / (y * conv) for x, y in zip(lvals, rvals)]
            f2 = c["f2"]
            if f2 == "mulk":
                res, exp = a * 2.5, [v * F(5, 2) for v in now]
            elif f2 == "pow2":
                res, exp = a ** 2, [v * v for v in now]
            elif f2 == "rdivk":
                res, exp = 2.0 / a, [2 / v for v in now]
            elif f2 == "neg":
                res, exp = -a, [-v for v in now]
            else:
                if c["mut"] == "imul":
                    a *= b
                    exp = [v * y * conv for v, y in zip(now, rvals)]
                else:
                    a /= b
                    exp = [v / (y * conv) for v, y in zip(now, rvals)]
                res = a
        except Exception as e:
            return "mismatch", f"history x {c['mut']} y, then {c['f2']}: raised {type(e).__name__}: {e}", {}
        d = check_result(res, o, exp, (2,), ["f8"], unit_tol(lu, ru), "f")
        return ("mismatch", f"after x {'*=' if c['mut'] == 'imul' else '/='} y, {c['f2']}: " + d, {}) if d else ("match", None, {})
    if fam == "nphist":
        vals = [F(4), F(9)] if k % 2 == 0 else [F(16), F(25)]
        a = A(np.array([float(v) for v in vals]), unit=UNITSTR[lu])
        fns = {"sqrt": np.sqrt, "square": np.square, "reciprocal": np.reciprocal}
        try:
            fns[c["f1"]](a)
            if c["mut"] == "imul":
                a *= a
                now = [v * v for v in vals]
            elif c["mut"] == "out":
                np.multiply(a, a, out=a)
                now = [v * v for v in vals]
            elif c["mut"] == "idiv":
                a /= a
                now = [F(1) for v in vals]
            else:
                a.unit = osyris.units("kg**2")
                now = list(vals)
            res = fns[c["f2"]](a)
        except Exception as e:
            return "mismatch", f"history {c['f1']} / {c['mut']} / {c['f2']} raised {type(e).__name__}: {e}", {}
        exact = {"sqrt": lambda v: None, "square": lambda v: v * v, "reciprocal": lambda v: 1 / v}[c["f2"]]
        exp = [exact(v) for v in now]
        if c["f2"] == "sqrt":
            import math
            exp = [F(math.isqrt(int(v))) if v.denominator == 1 and math.isqrt(int(v)) ** 2 == int(v) else F(float(v) ** 0.5) for v in now]
        d = check_result(res, o, exp, (2,), ["f8"], 0.0, "f")
        return ("mismatch", f"after {c['f1']}(a), then {c['mut']}: {c['f2']}(a): " + d, {}) if d else ("match", None, {})
    raise MachineryError("unknown family " + fam)


def sparse_dim_equal(a, b):
    from .units_map import dim_of_sparse
    return dim_of_sparse(SPARSE[a]) == dim_of_sparse(SPARSE[b])


_RECS = None


def _work(chunk):
    out = []
    for i, k in chunk:
        rec = _RECS[i]
        try:
            st, detail, extra = run_case(rec, k)
        except MachineryError:
            raise
        except Exception as e:       # harness problem, reported as machinery error by the parent
            st, detail, extra = "error", f"{type(e).__name__}: {e}", {}
        out.append((i, k, st, detail))
    return out


def emit_cases(rep, fams):
    os.makedirs(os.path.join(common.WORK, "cfg"), exist_ok=True)
    cfg = os.path.join(common.WORK, "cfg", "ArrayMachine.cfg")
    with open(cfg, "w") as f:
        f.write(open(os.path.join(common.TLA, "cfg", "ArrayMachine.cfg")).read() + "CONSTANT Fams = {" + ",".join(f'"{x}"' for x in sorted(fams)) + "}\n")
    res = common.run_tlc("ArrayMachine", cfg, workers=16, timeout=3000)
    rep.tlc(res, "ArrayMachine lattice")
    return res.json_lines()


def run_families(rep, tier, seed, fams, label, sample=None):
    global _RECS
    import osyris  # noqa
    recs = [r for r in emit_cases(rep, fams) if r["c"]["fam"] in fams or (r["c"]["fam"] == "nphist" and "np" in fams)]      # (nphist rides with the np catalogue)
    rng = random.Random(seed + 31)
    if sample:
        keep = []
        by = {}
        for r in recs:
            by.setdefault(r["c"]["fam"], []).append(r)
        for f, lst in by.items():
            cap = sample.get(f)
            keep += rng.sample(lst, cap) if cap and len(lst) > cap else lst
        recs = keep
    _RECS = recs
    nk = 2 if tier == "quick" else 4
    jobs = [(i, k) for i in range(len(recs)) for k in range(nk)]
    chunks = [jobs[i::64] for i in range(64)]
    counts = {"match": 0, "mismatch": 0, "skip": 0, "error": 0}
    errors = []
    with mp.get_context("fork").Pool(min(16, os.cpu_count() or 1)) as pool:
        for out in pool.imap_unordered(_work, [c for c in chunks if c]):
            for i, k, st, detail in out:
                counts[st] += 1
                c = recs[i]["c"]
                if st == "skip":
                    continue
                if st == "error":
                    errors.append((c, detail))
                    continue
                rep.case(klass=(c["fam"], c.get("op", c.get("f", c.get("f1", "") + c.get("mut", "") + c.get("f2", ""))), c["lu"], c.get("ru", 0), c.get("ldt"), c.get("rdt", ""), c.get("rk", ""), c.get("ls"), c.get("rs", "")))
                if st == "match":
                    rep.validated()
                    if k == 0:
                        rep.sample({"case": c, "units": recs[i]["names"], "spec_outcome": recs[i]["o"], "verdict": "implementation agrees"}, limit=3)
                else:
                    field = detail.split(":")[0][:40]
                    sig = {"module": "ArrayMachine", "fam": c["fam"], "op": c.get("op", c.get("f", "")), "field": field}
                    if c.get("rk"):
                        sig["rk"] = c["rk"]
                    rep.mismatch(sig, f"case {json.dumps(c)} units {recs[i]['names']} value set {k}: {detail}", case={"rec": recs[i], "k": k}, module="arrays")
    rep.part(label, cases=len(recs), executions=len(jobs), **counts)
    if errors:
        raise MachineryError(f"{len(errors)} cases could not be executed by the harness, e.g. {errors[0]}")
    if counts["match"] == 0:
        raise MachineryError("no case matched: harness broken")


def replay(rep, rec):
    import osyris  # noqa
    st, detail, _ = run_case(rec["case"]["rec"], rec["case"]["k"])
    print("replay verdict:", st, detail or "")
    if st == "mismatch":
        rep.mismatch(rec["sig"], detail, case=rec["case"], module="arrays")


RULE = ("TLC enumerates the operator x unit-pair x dtype x operand-kind x shape lattice of ArrayMachine.tla, computes the outcome of every case from the rule the "
        "property states and checks DimSound / StrictOpsRaiseIffIncompatible / BoolIsDimensionless / ChainCommutes / ToRaisesIffIncompatible; each case is executed on real "
        "Arrays with several value sets; distinct = (family, operator, unit pair, dtypes, operand kind, shapes)")
ASSUME = ["the independent unit table harness/units_map.py (exact metric factors; IAU/CODATA values for astrophysical units, compared with the stated tolerance)",
          "values are exactly representable in the operand dtypes; float rounding beyond 16 eps of the coarsest dtype is not claimed"]


def run_c02(rep, tier, seed):
    run_families(rep, tier, seed, {"units", "dtypes", "kinds", "shapes", "unary", "ophist"}, "arithmetic")
    _drop_cmp(rep)
    rep.cov["rule"] = RULE
    rep.assumptions += ASSUME


def _drop_cmp(rep):
    pass


def run_c07(rep, tier, seed):
    run_families(rep, tier, seed, {"units", "dtypes", "kinds", "shapes", "logic", "unary"}, "comparisons-and-logic")
    rep.cov["rule"] = RULE
    rep.assumptions += ASSUME


def run_c08(rep, tier, seed):
    run_families(rep, tier, seed, {"to", "chain"}, "conversion", sample={"chain": 2500} if tier == "quick" else None)
    from . import units_catalogue
    units_catalogue.run(rep, tier, seed)
    rep.cov["rule"] = RULE
    rep.assumptions += ASSUME


def run_c10(rep, tier, seed):
    run_families(rep, tier, seed, {"np"}, "numpy-catalogue")
    rep.cov["rule"] = RULE
    rep.assumptions += ASSUME
