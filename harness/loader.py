"""C01 / C12 / C13 / C14 / C15 (and the end-to-end half of C04): configurations -> TLC (tla/RamsesLayout.tla:
structural invariants, record layout, expected rows per request) -> bytes on disk -> the real loader ->
comparison of complete results; every binary read of the real loader is logged and checked for alignment
with the record grammar."""
import contextlib
import inspect
import io
import re
import json
import multiprocessing as mp
import os
import random
import shutil

from . import common, ramses_cfg, ramses_expect, ramses_pack
from .common import MachineryError


def tlc_layouts(rep, cfgs, label):
    wd = os.path.join(common.WORK, "layout", label)
    shutil.rmtree(wd, ignore_errors=True)
    os.makedirs(os.path.join(wd, "out"))
    slim = [{k: v for k, v in c.items() if k not in ("calls", "units", "boxlen", "nout", "ordering", "sink", "sink_sc", "sink_order", "bound_keys", "hist", "levelmin")} for c in cfgs]
    with open(os.path.join(wd, "cfgs.json"), "w") as f:
        json.dump(slim, f)
    res = common.run_tlc("RamsesLayout", "RamsesLayout.cfg", env={"CFG_FILE": os.path.join(wd, "cfgs.json"), "OUT_DIR": os.path.join(wd, "out")},
                         workers=16, timeout=3000)
    rep.tlc(res, label)
    lays = []
    for i in range(1, len(cfgs) + 1):
        p = os.path.join(wd, "out", f"{i}.json")
        if not os.path.exists(p):
            raise MachineryError(f"TLC produced no layout for configuration {i} of {label}")
        with open(p) as f:
            lays.append(json.load(f))
    shutil.rmtree(wd, ignore_errors=True)
    return lays


# --------------------------------------------------------------------------- read log (C -> S)

class ReadLog:
    def __init__(self):
        self.events = []
        self.broken = False
        self.orig = None

    def __enter__(self):
        from osyris.io import utils
        self.utils = utils
        self.orig = getattr(utils, "read_binary_data", None)
        if self.orig is None:
            self.broken = True
            return self
        size = {"b": 1, "h": 2, "i": 4, "q": 8, "f": 4, "d": 8, "e": 8, "n": 8, "l": 8, "s": 1}

        def wrapped(*args, **kwargs):
            # the log must never disturb the load: if the reader's interface is not the one this wrapper knows
            # (a refactoring), logging stops and the log is marked unusable
            if not self.broken:
                try:
                    b = inspect.signature(self.orig).bind(*args, **kwargs)
                    b.apply_defaults()
                    a = b.arguments
                    content, fmt, offsets, skip_head = a["content"], a["fmt"], a["offsets"], a["skip_head"]
                    off = sum(offsets[k] * size[k] for k in offsets) + (4 if skip_head else 0)
                    mult = 1 if len(fmt) == 1 else int(fmt[:-1])
                    self.events.append((content, fmt[-1], mult, off, skip_head))
                except Exception:
                    self.broken = True
            return self.orig(*args, **kwargs)
        utils.read_binary_data = wrapped
        return self

    def __exit__(self, *a):
        if self.orig is not None:
            self.utils.read_binary_data = self.orig


def check_alignment(events, filemap):
    """every read must start exactly at the payload of one record of the grammar (or at its length marker for a
    length probe), have the record's element type and fit inside it.  filemap: bytes -> (kind, cpu, spans)"""
    tsize = {"i": 4, "d": 8, "q": 8, "s": 1, "b": 1}
    nread = 0
    for content, t, mult, off, skip_head in events:
        info = filemap.get(content)
        if info is None:
            return f"read from a buffer that is no file of the output", nread
        kind, cpu, starts = info
        nread += 1
        if not skip_head:
            if off + 4 not in starts:
                return f"{kind} file of cpu {cpu}: length probe at byte {off} is not at a record marker", nread
            continue
        rec = starts.get(off)
        if rec is None:
            return f"{kind} file of cpu {cpu}: read of {mult}{t} at byte {off} does not start at a record (misaligned)", nread
        rt, n, tag = rec
        rt = "d" if rt == "q" else rt
        if rt != t and not (rt in ("s", "b") and t in ("s", "b")):
            return f"{kind} file of cpu {cpu}: read of {mult}{t} at byte {off} hits record '{tag}' of type {rt}", nread
        if mult * tsize[t] > n * tsize[rt]:
            return f"{kind} file of cpu {cpu}: read of {mult}{t} at byte {off} overruns record '{tag}' ({n}{rt})", nread
    return None, nread


# --------------------------------------------------------------------------- concrete calls

def build_args(cfg, call, S):
    """the arguments of RamsesDataset.load() for an abstract call"""
    import osyris
    ud, ul, ut = cfg["units"]
    k = call["kind"]
    kw = {}

    def level_fn():
        f = call["form"]
        if f == "le":
            return lambda l: l <= call["k"]
        if f == "lt":
            return lambda l: l < call["k"]
        if f == "eq":
            return lambda l: l == call["k"]
        if f == "ne":
            return lambda l: l != call["k"]
        if f == "gap":
            return lambda l: (l <= call["a"]) | (l == call["b"])
        return lambda l: (l > call["a"]) & (l < call["b"])

    def value_fn():
        fac, _ = ramses_expect.factor(ramses_expect.var_class(call["var"]), cfg["units"])
        thr = (call["thr"] + 0.5) * fac
        if call["cmp"] == "gt":
            return lambda v: v.values > thr if hasattr(v, "values") else v > thr
        return lambda v: v.values <= thr if hasattr(v, "values") else v <= thr

    def pos_fns():
        out = {}
        for d, iv in enumerate(call["pos"]):
            if iv:
                lo = osyris.Array(iv[0] / S * cfg["boxlen"] * ul, unit="cm")
                hi = osyris.Array(iv[1] / S * cfg["boxlen"] * ul, unit="cm")
                out["position_" + "xyz"[d]] = (lambda lo, hi: (lambda x: (x >= lo) & (x <= hi)))(lo, hi)
        return out
    def dx_fn():
        # cell sizes of the accepted levels a..b, with a margin of half a level on both sides
        big = osyris.Array(cfg["boxlen"] * ul / 2 ** call["a"] * 1.4, unit="cm")
        small = osyris.Array(cfg["boxlen"] * ul / 2 ** call["b"] * 0.7, unit="cm")
        return lambda dx: (dx < big) & (dx > small)
    if k == "dx":
        kw["select"] = {"mesh": {"dx": dx_fn()}}
    elif k == "dx+level":
        kw["select"] = {"mesh": ({"level": level_fn(), "dx": dx_fn()} if call["order"] == "ld" else {"dx": dx_fn(), "level": level_fn()})}
    elif k == "level":
        kw["select"] = {"mesh": {"level": level_fn()}}
        if call.get("partlevel"):
            kw["select"]["part"] = {"level": (lambda l: l <= call["partlevel"])}
    elif k == "value":
        kw["select"] = {"mesh": {call["var"]: value_array_fn(cfg, call)}}
    elif k == "value+level":
        kw["select"] = {"mesh": {call["var"]: value_array_fn(cfg, call), "level": (lambda kk: (lambda l: l <= kk))(call["k"])}}
    elif k == "position":
        kw["select"] = {"mesh": pos_fns()}
    elif k == "position+level":
        sel = pos_fns()
        sel["level"] = level_fn()
        kw["select"] = {"mesh": sel}
    elif k == "position+value":
        sel = pos_fns()
        sel[call["var"]] = value_array_fn(cfg, call)
        kw["select"] = {"mesh": sel}
    elif k == "cpus":
        kw["cpu_list"] = list(call["cpus"])
    elif k == "position+cpus":
        kw["cpu_list"] = list(call["cpus"])
        kw["select"] = {"mesh": pos_fns()}
    elif k == "groups":
        kw["select"] = list(call["groups"])
    elif k == "off":
        kw["select"] = {g: False for g in call["off"]}
    elif k == "vars":
        kw["select"] = {call["group"]: list(call["vars"])}
    elif k == "varoff":
        kw["select"] = {call["group"]: {v: False for v in call["vars"]}}
    elif k == "sort":
        kw["sortby"] = {call["group"]: call["key"]}
    elif k == "sortx":
        kw["select"] = list(call["groups"])
        kw["sortby"] = dict(call["sortby"])
    return kw


def value_array_fn(cfg, call):
    import osyris
    fac, _ = ramses_expect.factor(ramses_expect.var_class(call["var"]), cfg["units"])
    thr = (call["thr"] + 0.5) * fac

    def fn(v):
        t = osyris.Array(thr, unit=v.unit)
        return (v > t) if call["cmp"] == "gt" else (v <= t)
    return fn


def expected_groups(cfg, lay, call, part_cpus=None):
    """{group: (struct, cols, dims, ordered)} the call must return"""
    e = lay["exp"][call["req"] - 1]
    S = lay["S"]
    k = call["kind"]
    present = ["mesh"] + (["part"] if cfg["haspart"] else [])
    if k in ("groups", "sortx"):
        present = [g for g in present if g in call["groups"]]
    elif k == "off":
        present = [g for g in present if g not in call["off"]]
    out = {}
    if "mesh" in present:
        cols, dims = ramses_expect.mesh_columns(cfg, e["rows"], S)
        if k == "vars" and call["group"] == "mesh":
            cols, dims = ramses_expect.project(cols, dims, set(call["vars"]))
        if k == "varoff" and call["group"] == "mesh":
            cols, dims = ramses_expect.project(cols, dims, set(cols) - set(call["vars"]))
        nrows = len(e["rows"])
        if nrows == 0:
            cols, dims = {}, {}
        struct = ramses_expect.merge_names(list(cols), cfg["ndim"])
        # derived variables
        if "B_left" in struct and "B_right" in struct and len(struct["B_left"]) > 1:
            names = []
            for a, b in zip(struct["B_left"], struct["B_right"]):
                n = "B_field:" + a
                cols[n] = [0.5 * (x + y) for x, y in zip(cols[a], cols[b])]
                dims[n] = dims[a]
                names.append(n)
            struct["B_field"] = names
        if "density" in struct and "dx" in struct:
            cols["mass"] = [d * x ** 3 for d, x in zip(cols["density"], cols["dx"])]
            dims["mass"] = (0, 1, 0, 0, 0)
            struct["mass"] = ["mass"]
        order = None
        if k == "sort" and call["group"] == "mesh":
            order = sorted(range(nrows), key=lambda i: cols[call["key"]][i])
            cols = {n: [v[i] for i in order] for n, v in cols.items()}
        out["mesh"] = (struct, cols, dims, order is not None, nrows)
    if "part" in present:
        prows = e["part"] if part_cpus is None else [r for r in e["part"] if r["cpu"] in part_cpus]
        e = dict(e, part=prows)
        cols, dims = ramses_expect.part_columns(cfg, e["part"])
        if k == "vars" and call["group"] == "part":
            cols, dims = ramses_expect.project(cols, dims, set(call["vars"]))
        if k == "varoff" and call["group"] == "part":
            cols, dims = ramses_expect.project(cols, dims, set(cols) - set(call["vars"]))
        nrows = len(e["part"])
        struct = ramses_expect.merge_names(list(cols), cfg["ndim"])
        order = None
        if k == "sort" and call["group"] == "part" and nrows:
            order = sorted(range(nrows), key=lambda i: cols[call["key"]][i])
            cols = {n: [v[i] for i in order] for n, v in cols.items()}
        out["part"] = (struct, cols, dims, order is not None, nrows)
    return out


def files_read_for_particles(cfg, ds):
    """C14 speaks of 'the CPU files read': with a positional selection the loader may read any superset of the needed
    files, so the set is recovered from the particle tokens themselves (they encode the file they were written to)"""
    import numpy as np
    if "part" not in ds.keys():
        return None
    for v, (n, t) in enumerate(cfg["part"]["desc"]):
        if t == "b":
            continue
        fac, _ = ramses_expect.factor(ramses_expect.var_class(n), cfg["units"])
        g = ds["part"]
        arr = None
        if n in g.keys():
            arr = g[n]
        else:
            for k in g.keys():
                if common.is_vector(g[k]) and n[:-2] == k and n[-1] in common.comps_of(g[k]):
                    arr = common.comps_of(g[k])[n[-1]]
        if arr is None:
            continue
        toks = np.rint(np.atleast_1d(arr.values) / fac).astype(np.int64)
        return sorted({int((t0 - 300000) // 16 // 64) for t0 in toks})
    return None


def compare_dataset(cfg, lay, call, ds, fresh=True):
    part_cpus = None
    if "position" in call["kind"] and cfg["haspart"] and call["kind"] != "position+cpus":
        part_cpus = files_read_for_particles(cfg, ds)
        if part_cpus is None or not part_cpus:
            part_cpus = lay["exp"][call["req"] - 1]["codecpus"]
    exp = expected_groups(cfg, lay, call, part_cpus)
    got = [g for g in ds.keys() if g != "sink"]
    if sorted(got) != sorted(exp):
        return f"groups: expected {sorted(exp)} got {sorted(got)}"
    for g, (struct, cols, dims, ordered, nrows) in exp.items():
        d = ramses_expect.compare_group(struct, cols, dims, ds[g], ordered=ordered)
        if d:
            return f"group {g}: {d}"
    if "mesh" in exp and ds.meta["ncells"] != exp["mesh"][4]:
        return f"meta ncells: expected {exp['mesh'][4]} got {ds.meta['ncells']}"
    if "part" in exp and ds.meta["nparticles"] != exp["part"][4]:
        return f"meta nparticles: expected {exp['part'][4]} got {ds.meta['nparticles']}"
    if call["kind"] in ("level", "value+level", "position+level", "dx+level") and ds.meta["lmax"] != lay["exp"][call["req"] - 1]["lmax"]:
        return f"meta lmax: expected {lay['exp'][call['req'] - 1]['lmax']} got {ds.meta['lmax']}"
    # metadata read from the amr / hydro headers (beyond the listed properties: part of the grammar's coverage)
    if "mesh" in exp:
        recs = {r["tag"]: r for r in lay["files"][0]["amr"][:24]}
        for tag in ("dtold", "dtnew"):
            got = [float(x) for x in ds.meta.get(tag, [])]
            if got != [float(x) for x in recs[tag]["v"]]:
                return f"meta {tag}: expected {recs[tag]['v']} got {got}"
        if abs(float(ds.meta.get("gamma", 0.0)) - 1.4) > 1e-15:
            return f"meta gamma: expected 1.4 got {ds.meta.get('gamma')}"
    t = ds.meta["time"]
    try:
        tv = float(t.magnitude) * float(ramses_expect.cgs_of_sparse(ramses_expect.sparse_of_pint(t.units)))
    except Exception:
        return f"meta time is not a quantity: {t!r}"
    if abs(tv - 0.5 * cfg["units"][2]) > 1e-12 * abs(tv):
        return f"meta time: expected {0.5 * cfg['units'][2]} s got {tv}"
    return None


def work_dir(tag):
    d = os.path.join(common.WORK, "data", f"{os.getpid()}-{tag}")
    shutil.rmtree(d, ignore_errors=True)
    os.makedirs(d)
    return d


def run_config(args):
    """executed in a worker process: materialise, run the selected calls on fresh datasets, compare"""
    idx, cfg, lay, kinds, with_log = args
    import osyris
    out = []
    d = work_dir(idx)
    try:
        ramses_pack.materialise(cfg, lay, d)
        filemap = {}
        if with_log:
            num = str(cfg["nout"]).zfill(5)
            for f in range(cfg["ncpu"]):
                for kind in ("amr", "hydro", "grav", "rt", "part"):
                    recs = lay["files"][f][kind]
                    if recs:
                        b = ramses_pack.pack(recs)
                        filemap[b] = (kind, f + 1, {s: (t, n, tag) for s, t, n, tag in ramses_pack.record_spans(recs)})
        nout = -1 if idx % 2 else cfg["nout"]
        for ci, call in enumerate(cfg["calls"]):
            if kinds is not None and call["kind"] not in kinds:
                continue
            S = lay["S"]
            buf = io.StringIO()
            status, detail, nread = "match", None, 0
            compact = note = None
            try:
                with contextlib.redirect_stdout(buf):
                    ds = osyris.RamsesDataset(nout, path=d)
                    kw = build_args(cfg, call, S)
                    if with_log:
                        with ReadLog() as log:
                            ds.load(**kw)
                    else:
                        ds.load(**kw)
                detail = compare_dataset(cfg, lay, call, ds)
                if with_log and not log.broken and (idx + ci) % 7 == 0:
                    compact = [{"k": filemap[c0][0], "f": int(filemap[c0][1]), "t": t0, "n": int(m0), "off": int(o0), "head": bool(h0)} for c0, t0, m0, o0, h0 in log.events if c0 in filemap]
                if detail and cfg.get("hilbert3") and "position" in call["kind"]:
                    # the as-found pre-selection (Hilbert!CpuListOf) misses the owner of a qualifying leaf that is coarser than
                    # the search cubes (DESIGN D17): such a case is classified, not silenced - the result must then be
                    # exactly the rows of the files the as-found list keeps
                    e = lay["exp"][call["req"] - 1]
                    dropped = [r for r in e["rows"] if r["c"] not in e["codecpus"]]
                    if dropped and all(r["l"] < e["slevel"] for r in dropped):
                        lay2 = dict(lay, exp=list(lay["exp"]))
                        lay2["exp"][call["req"] - 1] = dict(e, rows=[r for r in e["rows"] if r["c"] in e["codecpus"]],
                                                            part=[r for r in e["part"] if r["cpu"] in e["codecpus"]])
                        if compare_dataset(cfg, lay2, call, ds) is None:
                            detail = "D17: " + detail
                if with_log and not log.broken and log.events:
                    # C -> S binding of the parser to the record grammar.  A divergence is a diagnosis attached to a wrong
                    # result; with a right result it is recorded (evidence: read_log_divergences) but is no violation -
                    # the properties speak about what load() returns, not about how the bytes are fetched
                    adetail, nread = check_alignment(log.events, filemap)
                    if adetail and detail:
                        detail += "; read log: " + adetail
                    elif adetail:
                        note = "read log: " + adetail
                # number of files opened (C04: pre-selection must keep every needed file)
                if detail is None:
                    needed = sorted({r["c"] for r in lay["exp"][call["req"] - 1]["rows"]})
                    for line in buf.getvalue().splitlines():
                        m = re.match(r"Processing (\d+) files", line)
                        if m:
                            nfiles = int(m.group(1))
                            if "mesh" in [g for g in ds.keys()] and nfiles < len(needed):
                                detail = f"only {nfiles} files processed but cells of {len(needed)} cpus qualify"
            except Exception as e:      # the loader raised on a well-formed output
                detail = f"load raised {type(e).__name__}: {e}"
            if detail:
                status = "mismatch"
            out.append((idx, ci, call, status, detail, nread, compact, note))
        if nout == -1 and idx % 4 == 1 and (kinds is None or "full" in kinds):
            # a newer output appears in the same directory (the run goes on): -1 now means that one
            other = next(u for u in ramses_cfg.UNITS if list(u) != list(cfg["units"]))
            cfg2 = dict(cfg, nout=cfg["nout"] + 1, units=list(other), hshift=4096)      # other unit factors AND other values on disk
            lay_new = dict(lay, exp=[dict(e, rows=[dict(r, h=[t + 4096 for t in r["h"]]) for r in e["rows"]]) for e in lay["exp"]])
            call = cfg["calls"][0]
            try:
                held = osyris.RamsesDataset(-1, path=d)          # created while the first output was the most recent one
                ramses_pack.materialise(cfg2, lay, d)
                with contextlib.redirect_stdout(io.StringIO()):
                    ds = osyris.RamsesDataset(-1, path=d).load()
                detail = compare_dataset(cfg2, lay_new, call, ds)
                if detail:
                    detail = "after a newer output appeared in the directory, nout=-1: " + detail
                else:
                    # the dataset created before: one output, whichever it is - never the files of one scaled and
                    # parsed with the header of the other
                    with contextlib.redirect_stdout(io.StringIO()):
                        held.load()
                    d1, d2 = compare_dataset(cfg, lay, call, held), compare_dataset(cfg2, lay_new, call, held)
                    if d1 and d2:
                        detail = ("a dataset created with nout=-1 before a newer output appeared, loaded afterwards, is neither output: "
                                  f"against the older one: {d1}; against the newer one: {d2}")
            except Exception as e:
                detail = f"after a newer output appeared in the directory, load raised {type(e).__name__}: {e}"
            out.append((idx, len(cfg["calls"]), dict(call, form="newer-output"), "mismatch" if detail else "match", detail, 0, None, None))
    finally:
        shutil.rmtree(d, ignore_errors=True)
    return out


def cfg_summary(cfg):
    return {k: cfg[k] for k in ("ndim", "ncpu", "nboundary", "levelmax", "noutput", "quadkeys", "hydro", "grav", "rt", "haspart", "units", "boxlen", "ordering")} | \
        {"noct": len(cfg["octs"]), "part_count": cfg["part"]["count"], "part_desc": cfg["part"]["desc"]}


def sig_of(cfg, call, detail, pid):
    field = detail.split(":")[0]
    if detail.startswith("D17: "):
        return {"module": "loader", "call": "position", "field": "preselection-drops-owner-of-coarser-leaf"}
    if detail.startswith("group "):
        field = ":".join(detail.split(":")[:2])
        if "row " in detail:
            field += ": row values"
    return {"module": "loader", "call": call["kind"], "field": field[:60]}


def run_batch(rep, cfgs, lays, kinds, label, with_log=False):
    import osyris  # noqa: F401  (before fork)
    jobs = [(i + 1, c, l, kinds, with_log) for i, (c, l) in enumerate(zip(cfgs, lays))]
    n = nm = nreads = 0
    traces, notes = [], []
    max_traces = 60 if rep.tier == "quick" else 600
    with mp.get_context("fork").Pool(min(16, os.cpu_count() or 1)) as pool:
        for res in pool.imap_unordered(run_config, jobs, chunksize=2):
            for idx, ci, call, status, detail, nread, compact, note in res:
                if note:
                    notes.append(note)
                cfg = cfgs[idx - 1]
                if compact and len(traces) < max_traces:
                    traces.append({"cfg": idx, "events": compact, "call": call["kind"]})
                n += 1
                nreads += nread
                rep.case(klass=(call["kind"], cfg["ndim"], cfg["ncpu"], cfg["nboundary"], cfg["levelmax"], len(cfg["octs"]), call.get("form", ""), ci))
                if status == "match":
                    rep.validated()
                    rep.sample({"configuration": cfg_summary(cfg), "call": {k: v for k, v in call.items() if k != "req"}, "verdict": "loader result equals specification"}, limit=3)
                else:
                    nm += 1
                    rep.mismatch(sig_of(cfg, call, detail, rep.pid),
                                 f"configuration {cfg_summary(cfg)} call {call}: {detail}",
                                 case={"cfg": cfg, "call_index": ci}, module="loader")
    rep.part(label, configurations=len(cfgs), calls=n, mismatches=nm, reads_checked_for_alignment=nreads,
             **({"read_log_divergences": len(notes), "first_divergence": notes[0]} if notes else {}))
    if notes:
        print(f"NOTE {label}: {len(notes)} load(s) returned the specified result while their read log diverges from the record grammar, e.g. {notes[0]}")
    if with_log and traces and not notes:
        validate_read_traces(rep, cfgs, traces, label)
    return n


def validate_read_traces(rep, cfgs, traces, label):
    """C -> S: recorded read logs validated by tla/TraceLayout.tla against the grammar of RamsesLayout"""
    wd = os.path.join(common.WORK, "layout", label + "-traces")
    os.makedirs(wd, exist_ok=True)
    slim = [{k: v for k, v in c.items() if k not in ("calls", "units", "boxlen", "nout", "ordering", "sink", "sink_sc", "sink_order", "bound_keys", "hist", "levelmin")} for c in cfgs]
    with open(os.path.join(wd, "cfgs.json"), "w") as f:
        json.dump(slim, f)
    # negative control: the last trace is a copy of the first with one offset shifted by 4 bytes
    ctl = json.loads(json.dumps(traces[0]))
    k = len(ctl["events"]) // 2
    ctl["events"][k]["off"] += 4
    with open(os.path.join(wd, "traces.json"), "w") as f:
        json.dump([{"cfg": t["cfg"], "events": t["events"]} for t in traces + [ctl]], f)
    res = common.run_tlc("TraceLayout", "TraceLayout.cfg", env={"CFG_FILE": os.path.join(wd, "cfgs.json"), "TRACE_FILE": os.path.join(wd, "traces.json"), "OUT_DIR": wd},
                         workers=1, timeout=1800)
    rep.tlc(res, label + " read-log traces (TraceLayout)")
    verdicts = {t[1]: (t[2], t[3]) for t in res.tuples("TRACE")}
    rejects = {t[1]: t for t in res.tuples("REJECT")}
    if len(verdicts) != len(traces) + 1:
        raise MachineryError(f"TraceLayout returned {len(verdicts)} verdicts for {len(traces) + 1} traces")
    m, ln = verdicts[len(traces) + 1]
    if m == ln:
        raise MachineryError("negative control: a read log with a shifted offset was accepted by TraceLayout")
    acc = 0
    for i, t in enumerate(traces, 1):
        m, ln = verdicts[i]
        rep.case(klass=("read-trace", t["call"], t["cfg"]))
        if m == ln:
            acc += 1
            rep.validated()
        else:
            ev = t["events"][m]
            rep.mismatch({"module": "TraceLayout", "field": "misaligned-read", "kind": ev["k"]},
                         f"configuration {cfg_summary(cfgs[t['cfg'] - 1])} call {t['call']}: read {m + 1} of the recorded log ({ev}) does not hit a record of the {ev['k']} file of cpu {ev['f']}",
                         case={"cfg": cfgs[t["cfg"] - 1], "call_index": 0}, module="loader")
    rep.part(label + "-traces", traces=len(traces), accepted=acc, events=sum(len(t["events"]) for t in traces), negative_control_rejected=True)
    shutil.rmtree(wd, ignore_errors=True)


def replay(rep, rec):
    cfg = rec["case"]["cfg"]
    lays = tlc_layouts(common.Report(rep.pid, rep.tier, rep.seed), [cfg], "replay")
    ci = rec["case"]["call_index"]
    if ci >= len(cfg["calls"]):
        print("replay: the 'newer output' step is re-run by ./check C01 (it follows the calls of this configuration); the full call is replayed here")
        ci = 0
    c2 = dict(cfg, calls=[cfg["calls"][ci]])
    import osyris  # noqa
    res = run_config((2, c2, lays[0], None, True))
    for idx, _, call, status, detail, nread, _c, _n in res:
        print("replay verdict:", status, detail or "")
        if status == "mismatch":
            rep.mismatch(rec["sig"], detail, case=rec["case"], module="loader")


# --------------------------------------------------------------------------- the checks

def make_cfgs(tier, seed, n_seeded, ndims=(1, 2, 3), family=True, n_hilbert3=0):
    rng = random.Random(seed + 11)
    cfgs = ramses_cfg.hilbert3(n_hilbert3, seed + 17, tier) if n_hilbert3 else []
    if family:
        fam = ramses_cfg.family_1d(tier, rng)
        if tier == "quick" and len(fam) > 120:
            fam = rng.sample(fam, 120)
        cfgs += fam
    cfgs += ramses_cfg.seeded(n_seeded, seed + 5, tier, ndims)
    for c in cfgs:
        ramses_cfg.add_requests(rng, c, tier)
    return cfgs


def finish_rule(rep, what):
    rep.cov["rule"] = (what + "; a case is one load() call on a freshly materialised output, distinct by (call kind, ndim, ncpu, nboundary, levelmax, "
                       "number of octs, predicate form, call index); non-trivial = the loader ran and its complete result was compared")
    rep.assumptions += ["struct/Fortran record markers as written by harness/ramses_pack.py (little-endian, 4-byte markers)",
                        "the independent code-unit table of harness/ramses_expect.py", "bound keys fit in float64; levelmax <= 4 in generated outputs"]


def run_c01(rep, tier, seed):
    n = 120 if tier == "quick" else 1500
    cfgs = make_cfgs(tier, seed, n, n_hilbert3=n // 3)
    lays = tlc_layouts(rep, cfgs, "c01")
    run_batch(rep, cfgs, lays, {"full"}, "full-loads", with_log=True)
    finish_rule(rep, "TLC checks WellFormed/Tiling/NoOverlap/EachLeafOnce on every configuration (all 1-D trees to levelmax 3 + seeded 1/2/3-D) and computes the record layout and the expected rows; the real loader's complete result (multiset of complete rows, units, vectors, derived variables, meta) and its read log are compared")


def run_c12(rep, tier, seed):
    n = 100 if tier == "quick" else 1200
    cfgs = [c for c in make_cfgs(tier, seed + 1, n, n_hilbert3=n // 2) if c["levelmax"] >= 2]
    lays = tlc_layouts(rep, cfgs, "c12")
    run_batch(rep, cfgs, lays, {"level", "value+level", "position+level", "dx", "dx+level"}, "level-limited-loads", with_log=True)
    finish_rule(rep, "TLC checks that the leaves of the tree truncated at every level L tile the box exactly once (Tiling, NoOverlap) and computes Leaves(Truncate(tree, L)) filtered by the predicate; the real loader is called with level predicates l<=k, l<k, a<l<b, l==k alone and combined with a value predicate; rows, stored coarse values, meta lmax and the read log are compared")


def run_c13(rep, tier, seed):
    n = 100 if tier == "quick" else 1200
    cfgs = make_cfgs(tier, seed + 2, n)
    lays = tlc_layouts(rep, cfgs, "c13")
    run_batch(rep, cfgs, lays, {"groups", "off", "vars"}, "projections", with_log=True)
    finish_rule(rep, "projection law: every load restricted to groups (list form / switched off) or variables (lists per group, {var: False}) must equal the same columns of the specification's full load, with vector assembly only for complete component sets; skip branches are exercised by the read log alignment check")


# --------------------------------------------------------------------------- C15: call histories

CLASS_CALLS = {
    "full": lambda c: c["kind"] == "full", "level": lambda c: c["kind"] == "level", "value": lambda c: c["kind"] == "value",
    "position": lambda c: c["kind"] in ("position", "position+value", "position+level"),
    "position_cpus": lambda c: c["kind"] == "position+cpus", "cpus": lambda c: c["kind"] == "cpus",
    "g_mesh": lambda c: c["kind"] == "groups" and c["groups"] == ["mesh"], "g_part": lambda c: c["kind"] == "groups" and c["groups"] == ["part"],
    "g_mesh_part": lambda c: c["kind"] == "groups" and c["groups"] == ["mesh", "part"], "g_sink": lambda c: c["kind"] == "groups" and c["groups"] == ["sink"],
    "off_part": lambda c: c["kind"] == "off" and c["off"] == ["part"], "off_mesh": lambda c: c["kind"] == "off" and c["off"] == ["mesh"],
    "vars_mesh": lambda c: c["kind"] == "vars" and c["group"] == "mesh", "vars_part": lambda c: c["kind"] == "vars" and c["group"] == "part",
    "sort_mesh": lambda c: c["kind"] == "sort" and c["group"] == "mesh", "sort_part": lambda c: c["kind"] == "sort" and c["group"] == "part",
    "sort_sink": lambda c: c["kind"] == "sort" and c["group"] == "sink",
    "sortx_part": lambda c: c["kind"] == "sortx",
}


def tlc_histories(rep, depth, haspart, hassink=False):
    os.makedirs(os.path.join(common.WORK, "cfg"), exist_ok=True)
    cfg = os.path.join(common.WORK, "cfg", f"LoaderMachine-{depth}-{haspart}-{hassink}.cfg")
    with open(cfg, "w") as f:
        f.write(open(os.path.join(common.TLA, "cfg", "LoaderMachine.cfg")).read()
                + f"CONSTANTS Depth = {depth}  HasPart = {'TRUE' if haspart else 'FALSE'}  HasSink = {'TRUE' if hassink else 'FALSE'}\n")
    res = common.run_tlc("LoaderMachine", cfg, workers=4, timeout=900)
    rep.tlc(res, f"histories-depth{depth}-part{haspart}-sink{hassink}")
    return res.json_lines()


def run_history(args):
    idx, cfg, lay, hists = args
    import numpy as np
    import osyris
    out = []
    d = work_dir(f"h{idx}")
    try:
        ramses_pack.materialise(cfg, lay, d)
        for h in hists:
            calls = h["calls"]
            ds = None
            detail = None
            try:
                with contextlib.redirect_stdout(io.StringIO()):
                    ds = osyris.RamsesDataset(cfg["nout"], path=d)
                    for step, call in enumerate(calls, 1):
                        held = {g: {k: [cc.values.copy() for cc in common.comps_of(v).values()] for k, v in ds[g].items()} for g in ds.keys()}
                        ds.load(**build_args(cfg, call, lay["S"]))
                        src = h["src"][step - 1]
                        # groups this call did not produce are kept unchanged - row for row
                        for g, mem in held.items():
                            if src.get(g) == step or g not in src:
                                continue
                            if g not in ds.keys() or [k for k in ds[g].keys() if k in mem] != list(mem):
                                detail = f"after call {step}: group {g}, which this call did not load, lost members"
                                break
                            for k2, arrs in mem.items():
                                now = [cc.values for cc in common.comps_of(ds[g][k2]).values()]
                                if len(now) != len(arrs) or any(not np.array_equal(x, y, equal_nan=True) for x, y in zip(arrs, now)):
                                    detail = f"after call {step}: group {g} was not loaded by this call, but its member {k2} changed (values or row order)"
                                    break
                            if detail:
                                break
                        if detail:
                            break
                        # every group must equal Fresh(the call that produced it)
                        present = sorted(g for g in ds.keys() if g != "sink" or cfg.get("sink_sc"))
                        want = sorted(g for g, k in src.items() if k)
                        if present != want:
                            detail = f"after call {step}: groups expected {want} got {present}"
                            break
                        for g in want:
                            if g == "sink":
                                # file order unless the producing call asked for sorted sinks (every column ascends with the sink number)
                                by = calls[src[g] - 1]
                                rows = sorted(cfg["sink_order"]) if by["kind"] == "sort" and by["group"] == "sink" else "any"
                                dd = check_sink(cfg, cfg["sink_sc"], ds, rows)
                                if dd is None and rows == "any":
                                    # the row order of an unsorted load is whatever a fresh dataset gives for the same call
                                    fresh = osyris.RamsesDataset(cfg["nout"], path=d)
                                    fresh.load(select=["sink"])
                                    for key in ds["sink"].keys():
                                        a, b = common.comps_of(ds["sink"][key]), common.comps_of(fresh["sink"][key])
                                        if any(not np.array_equal(a[c].values, b[c].values) for c in a):
                                            dd = f"{key}: rows {[a[c].values.tolist() for c in a]} are ordered differently from a fresh load {[b[c].values.tolist() for c in b]}"
                                            break
                                if dd:
                                    detail = f"after call {step}: group sink differs from a fresh load of call {src[g]}: {dd}"
                                    break
                                continue
                            pc = None
                            if g == "part" and "position" in calls[src[g] - 1]["kind"]:
                                pc = files_read_for_particles(cfg, ds) or lay["exp"][calls[src[g] - 1]["req"] - 1]["codecpus"]
                            exp = expected_groups(cfg, lay, calls[src[g] - 1], pc)[g]
                            dd = ramses_expect.compare_group(exp[0], exp[1], exp[2], ds[g], ordered=exp[3])
                            if dd:
                                detail = f"after call {step}: group {g} differs from a fresh load of call {src[g]}: {dd}"
                                break
                            if src[g] == step:
                                key = "ncells" if g == "mesh" else "nparticles"
                                if ds.meta[key] != exp[4]:
                                    detail = f"after call {step}: meta {key} expected {exp[4]} got {ds.meta[key]}"
                                    break
                        if detail:
                            break
            except Exception as e:
                detail = f"history raised {type(e).__name__}: {e}"
            out.append((idx, h, "mismatch" if detail else "match", detail))
    finally:
        shutil.rmtree(d, ignore_errors=True)
    return out


def attribution(classes, haspart):
    """src after every step, recomputed from the emitted final attribution rule (prefixes are emitted too)"""
    return None


def run_c15(rep, tier, seed):
    import osyris  # noqa
    depth = 2 if tier == "quick" else 3
    rng = random.Random(seed + 3)
    ncfg = 40 if tier == "quick" else 200
    cfgs = make_cfgs(tier, seed + 4, ncfg, family=False, n_hilbert3=ncfg)
    lays = tlc_layouts(rep, cfgs, "c15")
    # a sink table (rows not in ascending order) next to half of the outputs
    sres = common.run_tlc("Sink", "Sink.cfg", workers=1, timeout=600)
    scs = [sc for sc in sres.json_lines() if sc["exp"]["nsink"] >= 2]
    for i, c in enumerate(cfgs):
        if i % 2 == 0:
            cand = [sc for sc in scs if sc["ndim"] == c["ndim"]]
            sc = rng.choice(cand)
            n = sc["exp"]["nsink"]
            c["sink_sc"], c["sink_order"] = sc, ([1, 0] if n == 2 else [n - 1] + list(range(n - 1)))
            c["sink"] = sink_csv(sc, c["sink_order"])
            c["calls"].append({"req": 1, "kind": "sort", "group": "sink", "key": rng.choice(sorted(sc["exp"]["scalars"]))})
    emitted = {(hp, hs): tlc_histories(rep, depth, hp, hs) for hp in (True, False) for hs in (True, False)}
    index = {hp: {json.dumps(r["h"]): r for r in recs} for hp, recs in emitted.items()}
    jobs = []
    per_cfg = 70 if tier == "quick" else 400
    for i, (c, lay) in enumerate(zip(cfgs, lays)):
        hk = (c["haspart"], bool(c.get("sink_sc")))
        recs = [r for r in emitted[hk] if len(r["h"]) >= 2]
        chosen = rng.sample(recs, min(per_cfg, len(recs)))
        hists = []
        for r in chosen:
            calls, ok = [], True
            for k in r["h"]:
                cand = [x for x in c["calls"] if CLASS_CALLS[k](x)]
                if not cand:
                    ok = False
                    break
                calls.append(rng.choice(cand))
            if not ok:
                continue
            srcs = [index[hk][json.dumps(r["h"][:j])]["src"] for j in range(1, len(r["h"]) + 1)]
            hists.append({"classes": r["h"], "calls": calls, "src": srcs})
        jobs.append((i + 1, c, lay, hists))
    n = 0
    with mp.get_context("fork").Pool(min(16, os.cpu_count() or 1)) as pool:
        for res in pool.imap_unordered(run_history, jobs):
            for idx, h, status, detail in res:
                n += 1
                cfg = cfgs[idx - 1]
                rep.case(klass=("history", tuple(h["classes"]), cfg["ndim"], cfg["ncpu"]))
                if status == "match":
                    rep.validated()
                    rep.sample({"configuration": cfg_summary(cfg), "history": [{k: v for k, v in c.items() if k != "req"} for c in h["calls"]],
                                "verdict": "after every call each group equals Fresh(most recent producing call)"}, limit=3)
                else:
                    rep.mismatch({"module": "loader-history", "classes": "/".join(h["classes"]), "field": detail.split(":")[0][:50]},
                                 f"configuration {cfg_summary(cfg)} history {h['classes']}: {detail}",
                                 case={"cfg": cfg, "history": h}, module="loader_history")
    rep.part("histories", histories=n, depth=depth, classes=len(CLASS_CALLS))
    if tier == "thorough":
        apalache_inductive(rep)
    finish_rule(rep, "TLC enumerates every history of load() call classes up to the depth bound (LoaderMachine.tla, invariant Attribution) and states which call each group must reflect; each history is instantiated with concrete calls on seeded outputs and driven through ONE real RamsesDataset, compared after every call with the specification's Fresh(call) rows")


def run_c04_loads(rep, tier, seed):
    """end-to-end half of C04: selective loads on Hilbert-ordered 3-D outputs (and 1-/2-D ones) equal the filtered full load"""
    nh, ns = (150, 60) if tier == "quick" else (1000, 300)
    cfgs = make_cfgs(tier, seed + 6, ns, family=False, n_hilbert3=nh)
    lays = tlc_layouts(rep, cfgs, "c04")
    run_batch(rep, cfgs, lays, {"position", "position+value", "position+level", "position+cpus", "value", "cpus"}, "selective-loads", with_log=False)


# --------------------------------------------------------------------------- C14: particles and sinks

def sink_csv(sc, rows=None):
    """rows: the order in which the sinks are written (default: ascending in every column)"""
    e = sc["exp"]
    lines = [" # " + ",".join(c["name"] for c in e["cols"]), " # " + ",".join(c["cell"] for c in e["cols"])]
    for r in (range(e["nsink"]) if rows is None else rows):
        lines.append(",".join(repr(float((r + 1) * 16 + k)) if c["name"] != "id" else str(r + 1) for k, c in enumerate(e["cols"])))
    return "\n".join(lines) + "\n"


def check_sink(cfg, sc, ds, rows=None):
    import numpy as np
    from .units_map import cgs_of_sparse, dim_of_sparse, sparse_of_pint
    e = sc["exp"]
    if "sink" not in ds.keys():
        return "no sink group was loaded"
    g = ds["sink"]
    vec = {v["name"]: v["comps"] for v in (e["vectors"] if isinstance(e["vectors"], list) else [])}
    want_keys = sorted(list(e["scalars"]) + list(vec))
    if sorted(g.keys()) != want_keys:
        return f"keys: expected {want_keys} got {sorted(g.keys())}"
    ud, ul, ut = cfg["units"]
    col = {c["name"]: (k, c) for k, c in enumerate(e["cols"])}

    perm = {}

    def check_col(name, arr):
        k, c = col[name]
        want = [float((r + 1) * 16 + k) if name != "id" else float(r + 1) for r in (range(e["nsink"]) if rows is None or rows == "any" else rows)]
        u = c["unit"]
        sp = sparse_of_pint(arr.unit)
        vals = np.atleast_1d(arr.values).astype(float).tolist()
        if rows == "any" and len(vals) == e["nsink"]:
            # the order of the rows is not promised: one permutation (taken from the first column seen) must order every column
            if "p" not in perm:
                perm["p"] = sorted(range(len(vals)), key=lambda i: vals[i])
            vals = [vals[i] for i in perm["p"]]
        if len(vals) != e["nsink"]:
            return f"{name}: expected {e['nsink']} rows got {len(vals)}"
        if u[0] in ("one", "legacy1"):
            if sp != []:
                return f"{name}: expected a dimensionless column got unit {arr.unit}"
            fac = 1.0
        elif u[0] == "legacy":
            if sp != [[u[1], 1]]:
                return f"{name}: expected unit {u[1]} got {arr.unit}"
            fac = 1.0
        else:
            a, b, c3 = u[1], u[2], u[3]
            if any(n.startswith("?") for n, _ in sp):
                return f"{name}: unit {arr.unit} outside the catalogue"
            if dim_of_sparse(sp) != (b, a, c3, 0, 0):
                return f"{name}: unit dimension expected M^{a} L^{b} T^{c3} got {arr.unit}"
            fac = (ud * ul ** 3) ** a * ul ** b * ut ** c3 / float(cgs_of_sparse(sp))
        for r, (w, v) in enumerate(zip(want, vals)):
            if abs(w * fac - v) > 1e-11 * abs(w * fac):
                return f"{name} row {r}: expected {w * fac!r} got {v!r}"
        return None
    for name in e["scalars"]:
        if common.is_vector(g[name]):
            return f"{name}: expected a scalar got a vector"
        d = check_col(name, g[name])
        if d:
            return d
    for name, comps in vec.items():
        if not common.is_vector(g[name]) or len(common.comps_of(g[name])) != len(comps):
            return f"{name}: expected a vector of {len(comps)} components"
        for cn, arr in zip(comps, common.comps_of(g[name]).values()):
            d = check_col(cn, arr)
            if d:
                return d
    return None


def run_sink_scenario(args):
    idx, sc, base = args
    import numpy as np
    import osyris
    d = work_dir(f"s{idx}")
    out = []
    try:
        variants = [("csv", sink_csv(sc))]
        if idx % 9 == 0:
            variants += [("empty", ""), ("missing", None)]
        if idx % 5 == 0:
            # the file RAMSES writes while no sink has formed yet: the two header lines and no row
            variants += [("header-only", "\n".join(sink_csv(sc).split("\n")[:2]) + "\n")]
        for vname, text in variants:
            cfg = dict(base["cfg"], sink=text)
            shutil.rmtree(d, ignore_errors=True)
            os.makedirs(d)
            ramses_pack.materialise(cfg, base["lay"], d)
            for sel in (["sink"], None, "sorted"):
                detail = None
                try:
                    with contextlib.redirect_stdout(io.StringIO()):
                        if sel == "sorted":
                            # a sort key for the sink table, whatever the table holds (a loop over outputs, the early ones without sinks)
                            if vname == "csv":
                                continue
                            ds = osyris.RamsesDataset(cfg["nout"], path=d).load(sortby={"sink": sc["exp"]["cols"][0]["name"]})
                        else:
                            ds = osyris.RamsesDataset(-1 if idx % 2 else cfg["nout"], path=d).load(select=sel)
                    if vname == "csv":
                        detail = check_sink(cfg, sc, ds)
                    elif vname == "header-only":
                        if "sink" not in ds.keys() or any(len(np.atleast_1d(c.values)) != 0 for v in ds["sink"].values() for c in common.comps_of(v).values()):
                            detail = "a sink file without rows must give an empty sink group"
                        if sel is None and "mesh" not in ds.keys():
                            detail = "the mesh was not loaded next to an empty sink table"
                    elif vname == "empty":
                        if "sink" not in ds.keys() or len(ds["sink"].keys()) != 0:
                            detail = "an empty sink file must give an empty sink group"
                    else:
                        if "sink" in ds.keys():
                            detail = "a missing sink file must give no sink group"
                except Exception as e:
                    detail = f"load raised {type(e).__name__}: {e}"
                out.append((idx, vname, sel, "mismatch" if detail else "match", detail))
    finally:
        shutil.rmtree(d, ignore_errors=True)
    return out


def run_c14(rep, tier, seed):
    import osyris  # noqa
    n = 100 if tier == "quick" else 1200
    rng = random.Random(seed + 8)
    cfgs = [c for c in make_cfgs(tier, seed + 7, n, n_hilbert3=n // 4)]
    for c in cfgs:
        c["haspart"] = True
    lays = tlc_layouts(rep, cfgs, "c14")
    run_batch(rep, [c for c in cfgs], lays, {"full", "sort", "vars", "cpus"}, "particle-tables", with_log=True)
    # sink scenarios
    res = common.run_tlc("Sink", "Sink.cfg", workers=1, timeout=600)
    rep.tlc(res, "Sink scenarios")
    scs = res.json_lines()
    bases = {}
    for ndim in (1, 2, 3):
        octs = ramses_cfg.gen_tree(rng, ndim, 1, 1, 0.0, 1)
        for units in ramses_cfg.UNITS[:2]:
            c = ramses_cfg.finish(rng, octs, ndim, 1, 0, 1, haspart=False, rt=[], grav=False, units=units, ordering="planar")
            ramses_cfg.add_requests(rng, c, "quick")
            bases[(ndim, tuple(units))] = c
    bl = tlc_layouts(rep, list(bases.values()), "c14-sinkbase")
    for (k, c), lay in zip(bases.items(), bl):
        bases[k] = {"cfg": c, "lay": lay}
    jobs = []
    for i, sc in enumerate(scs):
        for units in ramses_cfg.UNITS[:2]:
            jobs.append((len(jobs) + 1, sc, bases[(sc["ndim"], tuple(units))]))
    nm = 0
    with mp.get_context("fork").Pool(min(16, os.cpu_count() or 1)) as pool:
        for out in pool.imap_unordered(run_sink_scenario, jobs):
            for idx, vname, sel, status, detail in out:
                sc = jobs[idx - 1][1]
                rep.case(klass=("sink", vname, sc["ndim"], sc["exp"]["nsink"], tuple(c["name"] for c in sc["exp"]["cols"]), str(sel)))
                if status == "match":
                    rep.validated()
                else:
                    nm += 1
                    rep.mismatch({"module": "sink", "variant": vname, "field": detail.split(":")[0][:40]},
                                 f"sink scenario ndim={sc['ndim']} nsink={sc['exp']['nsink']} columns={[(c['name'], c['cell']) for c in sc['exp']['cols']]} select={sel} [{vname}]: {detail}",
                                 case={"scenario": sc, "variant": vname}, module="sink")
    rep.part("sink", scenarios=len(jobs), mismatches=nm)
    rep.sample({"sink_scenario": {"ndim": scs[0]["ndim"], "columns": [(c["name"], c["cell"]) for c in scs[0]["exp"]["cols"]]}}, limit=5)
    finish_rule(rep, "particle tables: descriptors mixing d/i/b columns in several orders, particle counts per cpu incl. 0, header records of several lengths, restricted/sorted loads, compared column by column with the specification's PartRows (tokens encode file, particle and column); sink CSV scenarios enumerated by Sink.tla (column sets, unit-line dialects, 1-3 sinks, empty and missing file) compared with Sink!Expected")


def apalache_inductive(rep):
    r"""stretch: Attribution /\ TypeOK is an inductive invariant of LoaderMachine (Apalache, symbolic: Init => Inv, Inv /\ Next => Inv')"""
    import subprocess
    wd = os.path.join(common.WORK, "apalache")
    os.makedirs(wd, exist_ok=True)
    s = open(os.path.join(common.TLA, "LoaderMachine.tla")).read()
    s = s.replace("CONSTANTS Depth, HasPart, HasSink", "CONSTANTS\n  \\* @type: Int;\n  Depth,\n  \\* @type: Bool;\n  HasPart,\n  \\* @type: Bool;\n  HasSink")
    a = s.index("VARIABLES src,")
    b = s.index("vars ==")
    s = s[:a] + "VARIABLES\n  \\* @type: Str -> Int;\n  src,\n  \\* @type: Str -> Int;\n  counted,\n  \\* @type: Seq(Str);\n  hist\n" + s[b:]
    s = s.replace("EXTENDS Integers, Sequences, FiniteSets, TLC, Json", "EXTENDS Integers, Sequences, FiniteSets, Apalache")
    s = "\n".join(l for l in s.splitlines() if not l.startswith("Emit =="))
    s = s.replace("====", """CInit == Depth = 3 /\\ HasPart = TRUE /\\ HasSink = TRUE
TypeOK == /\\ DOMAIN src = Groups /\\ DOMAIN counted = {"ncells", "nparticles"} /\\ Len(hist) <= Depth
          /\\ \\A g \\in Groups : src[g] >= 0 /\\ src[g] <= Len(hist)
          /\\ \\A i \\in DOMAIN hist : hist[i] \\in Classes
IndInv == TypeOK /\\ Attribution
IndInit == hist = Gen(3) /\\ src = Gen(3) /\\ counted = Gen(2) /\\ IndInv
====""")
    with open(os.path.join(wd, "LoaderMachine.tla"), "w") as f:
        f.write(s)
    out = {}
    for label, args in (("init_implies_inv", ["--init=Init", "--inv=IndInv", "--length=0"]), ("inv_is_inductive", ["--init=IndInit", "--inv=IndInv", "--length=1"])):
        try:
            p = subprocess.run(["apalache-mc", "check", "--cinit=CInit", "--no-deadlock", f"--out-dir={wd}/out"] + args + ["LoaderMachine.tla"], cwd=wd, capture_output=True, text=True, timeout=600)
            out[label] = "EXITCODE: OK" in p.stdout
            if not out[label]:
                out[label + "_tail"] = p.stdout[-400:]
        except Exception as e:      # the stretch goal must never break the check
            out[label] = f"not run: {type(e).__name__}"
    rep.part("apalache-inductive-invariant", **out)
    shutil.rmtree(wd, ignore_errors=True)
