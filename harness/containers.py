"""C06 / C17 / C20: TLC explores tla/Containers.tla, every explored transition is replayed on real
osyris objects (S->C); recorded executions are validated by tla/TraceContainers.tla (C->S)."""
import json
import multiprocessing as mp
import os
import random

from . import common
from .common import MachineryError

ALL_ACTS = ["set", "del", "pop", "get", "clear", "update", "copy", "deepcopy", "index", "slice", "ocopy", "to", "vset", "sortkey", "sortidx",
            "iop", "eq", "dsset", "dsdel", "dspop", "dsget", "dsmeta", "dsclear", "dsupdate", "dscopy", "dsdeepcopy"]
FOCUS = {
    "dict": ["set", "del", "pop", "get", "clear", "update", "copy", "eq", "dsset", "dsdel", "dspop", "dsget", "dsmeta", "dsclear",
             "dsupdate", "dscopy", "dsdeepcopy"],
    "rows": ["set", "del", "pop", "update", "index", "sortkey", "sortidx", "clear", "vset"],
    "alias": ["set", "copy", "deepcopy", "slice", "ocopy", "to", "vset", "iop", "dsset", "dscopy"],
}
IDX_ALL = ["i0", "im1", "imn", "iout", "s02", "s_2", "srev", "s1_", "mask", "maskArr", "maskBad", "maskNone", "ia", "iaArr", "perm", "faArr", "vecIdx"]
INVARIANTS = ["Aligned", "KeysConsistent", "HeapOk", "OneRowSelection"]
PROPERTIES = ["SortIsOnePermutation", "RejectedChangesNothing", "NameIsKey", "DsNameParent", "InPlaceSameObject", "InPlaceFrame",
              "CopiesAreFresh", "ShallowCopySharesMembers", "DeepCopyDisjoint"]


def write_cfg(name, acts, depth, emit, keys=("a", "b"), maxobj=14, maxgrp=4, check=True, idx=None, ops=None, objs=None, grps=None, paths=False, ties=False):
    os.makedirs(os.path.join(common.WORK, "cfg"), exist_ok=True)
    path = os.path.join(common.WORK, "cfg", name + ".cfg")
    lines = ["INIT Init", "NEXT Next",
             f"CONSTANTS MaxObj = {maxobj}  MaxGrp = {maxgrp}  Depth = {depth}",
             " Keys = {" + ",".join(f'"{k}"' for k in keys) + "}",
             " Acts = {" + ",".join(f'"{a}"' for a in acts) + "}",
             " IdxUse = {" + ",".join(f'"{k}"' for k in (idx or IDX_ALL)) + "}",
             " OpsUse = {" + ",".join(f'"{k}"' for k in (ops or ["add", "sub", "mul", "div"])) + "}",
             " ObjUse = {" + ",".join(str(k) for k in (objs or [])) + "}",
             " GrpUse = {" + ",".join(str(k) for k in (grps or [])) + "}",
             " TiesPool = " + ("TRUE" if ties else "FALSE"),
             "VIEW ViewPath" if paths else "VIEW View", "CHECK_DEADLOCK FALSE", "CONSTRAINT SmallValues"]
    if check:
        lines += ["INVARIANT " + i for i in INVARIANTS] + ["PROPERTY " + p for p in PROPERTIES]
    if emit == "transitions":
        lines.append("ACTION_CONSTRAINT Emit")
    elif emit == "states":
        lines.append("INVARIANT EmitState")
    with open(path, "w") as f:
        f.write("\n".join(lines) + "\n")
    return path


def tlc_emit(rep, label, acts, depth, simulate=None, seed=None, sim_depth=None, idx=None, ops=None, objs=None, keys=("a", "b"), grps=None, paths=False, ties=False):
    cfg = write_cfg(label, acts, depth if not simulate else sim_depth, emit="states" if simulate else "transitions", check=not simulate, idx=idx, ops=ops, objs=objs, keys=keys, grps=grps, paths=paths, ties=ties)
    res = common.run_tlc("Containers", cfg, workers=16, simulate=simulate, depth=sim_depth, seed=seed, timeout=3000)
    rep.tlc(res, label)
    recs = res.json_lines()
    if not recs:
        raise MachineryError(f"TLC emitted no transition for {label}")
    # vacuity gate: every enabled action of the alphabet must have been taken at least once
    norm = {"dssetbad": "dsset", "dsupdatebad": "dsupdate"}
    taken = {norm.get(r["a"]["op"], r["a"]["op"]) for r in recs if "a" in r}
    missing = set(acts) - taken
    if missing and not simulate:
        raise MachineryError(f"vacuous exploration {label}: actions never taken: {sorted(missing)}")
    rep.part(label, actions_taken={k: sum(1 for r in recs if "a" in r and norm.get(r["a"]["op"], r["a"]["op"]) == k) for k in sorted(taken)})
    return recs


# --------------------------------------------------------------------------- replay

_INDEX = {}      # (hist key, action key) -> delta      (forked into the workers)
_INIT = None


def _k(x):
    return json.dumps(x, sort_keys=True, separators=(",", ":"))


def _apply_delta(state, d):
    st = {"heap": list(state["heap"]), "bufs": list(state["bufs"]), "dgs": list(state["dgs"]), "dss": list(state["dss"]), "res": d["res"]}
    for src, dst in (("dh", "heap"), ("db", "bufs"), ("dg", "dgs"), ("dd", "dss")):
        ch = d[src]
        items = enumerate(ch, 1) if isinstance(ch, list) else ((int(i), v) for i, v in ch.items())
        for i, v in items:
            while len(st[dst]) < i:
                st[dst].append(None)
            st[dst][i - 1] = v
    return st


_STATE_CACHE = {}


def expected_state(hist):
    key = _k(hist)
    if key in _STATE_CACHE:
        return _STATE_CACHE[key]
    if not hist:
        st = _INIT
    else:
        prev = expected_state(hist[:-1])
        d = _INDEX.get((_k(hist[:-1]), _k(hist[-1])))
        if d is None:
            raise MachineryError("emitted history has no emitted transition: " + key[:300])
        st = _apply_delta(prev, d)
    if len(_STATE_CACHE) < 20000:
        _STATE_CACHE[key] = st
    return st


def init_state():
    from . import containers_world
    U = {"m": [["m", 1]], "s": [["s", 1]], "cm": [["cm", 1]], "": []}

    def ints(xs):
        return [_rat(x) for x in xs]

    def obj(kind, bufs_, n, u, dt, scalar=False):
        return {"k": kind, "c": [{"buf": b, "idx": list(range(1, n + 1))} for b in bufs_], "s": scalar, "u": U[u], "n": "", "dt": dt}
    bufs = [ints([3, 1, 2]), ints([20, 30, 10]), ints([7, 5]), ints([9]), ints([100, 300, 200]), ints([4, 6, 5]), ints([2, 0, 2] if containers_world.POOL_TIES else [2, 0, 1]), ints([500, 700, 100]), ints([6, 2, 4]), ints([900, 900, 900]), ints([600, 200, 400])]
    heap = [obj("arr", [1], 3, "m", "f8"), obj("arr", [2], 3, "s", "f8"), obj("arr", [3], 2, "m", "f8"), obj("arr", [4], 1, "m", "f8", True),
            obj("vec", [5, 6], 3, "cm", "f8"), obj("arr", [7], 3, "", "i8"), obj("arr", [8], 3, "cm", "f8"), obj("arr", [9], 3, "m", "f4"), obj("arr", [10], 3, "cm", "f8"), obj("arr", [11], 3, "cm", "f8")]
    g0 = {"keys": [], "val": [], "name": "", "parent": 0}
    return {"heap": heap, "bufs": bufs, "dgs": [dict(g0), dict(g0)], "dss": [{"keys": [], "val": [], "meta": []}], "res": {"t": "none"}}


def _rat(x):
    n, e = x, 0
    if n == 0:
        return [0, 1, 0]
    while n % 10 == 0:
        n //= 10
        e += 1
    return [n, 1, e]


def replay_one(hist, alts):
    """alts: list of (action, delta) sharing hist and action up to `alt`. Returns (status, detail)"""
    from .containers_world import World, compare, spec_view
    w = World()
    for a in hist:
        w.apply(a)
        if a["op"] == "set" and (a["alt"] == "rej") != (w.res["t"] == "exc"):
            return "unrealised", None        # the implementation took the other allowed outcome earlier
    a0 = alts[0][0]
    try:
        w.apply(a0)
        impl = w.project()
    except Exception as e:       # the implementation reached a state that has no counterpart in the specification
        return "mismatch", f"implementation state cannot be projected: {type(e).__name__}: {e}"
    base = expected_state(hist)
    details = []
    for a, d in alts:
        exp = spec_view(_apply_delta(base, d))
        diff = compare(exp, impl)
        if diff is None:
            return "match", None
        details.append(diff)
    return "mismatch", details[0] if len(details) == 1 else " | ".join(details)


def replay_state(hist, state):
    from .containers_world import World, compare, spec_view
    w = World()
    for a in hist:
        w.apply(a)
        if a["op"] == "set" and (a["alt"] == "rej") != (w.res["t"] == "exc"):
            return "unrealised", None
    diff = compare(spec_view(state), w.project())
    return ("match", None) if diff is None else ("mismatch", diff)


def _work(chunk):
    out = []
    for hist, alts in chunk:
        if isinstance(alts, dict):          # a state record of a simulated behaviour
            st, detail = replay_state(hist[:-1] + [hist[-1]], alts)
            out.append((hist[:-1], hist[-1], st, detail))
        else:
            st, detail = replay_one(hist, alts)
            out.append((hist, alts[0][0], st, detail))
    return out


def replay_records(rep, recs, pid_focus, label, sample_cap=None, seed=0):
    """replay every emitted transition level by level; returns number replayed"""
    global _INIT
    import osyris  # noqa: F401  (imported before the fork: first import creates $HOME/.osyris)
    _INIT = init_state()
    _INDEX.clear()
    _STATE_CACHE.clear()
    groups = {}
    states = {}
    for r in recs:
        if "s" in r:
            states[_k(r["h"])] = r
            continue
        h, a, d = r["h"], r["a"], r["d"]
        _INDEX[(_k(h), _k(a))] = d
        a_noalt = {k: v for k, v in a.items() if k != "alt"}
        groups.setdefault((_k(h), _k(a_noalt)), []).append((a, d))
    items = [(json.loads(hk), alts) for (hk, _), alts in groups.items()]
    # state records are keyed by their full history; "depth" below is the length of the prefix before the last action
    items += [(r["h"], r["s"]) for r in states.values()]
    if sample_cap and len(items) > sample_cap:
        # stratified sample: every (action, kind of result) class keeps at least `floor` transitions, so rare outcomes
        # (an equality that holds, a rejected insertion ...) are never sampled away; prefixes are replayed from scratch
        rng = random.Random(seed)
        strata = {}
        for it in items:
            h, alts = it
            if isinstance(alts, dict):
                key = ("state",)
            else:
                a, d = alts[0]
                r = d["res"]
                key = (a["op"], a.get("kind", a.get("f", "")), r.get("t"), str(r.get("v", r.get("e", ""))), len(alts))
            strata.setdefault(key, []).append(it)
        floor = max(300, sample_cap // max(1, len(strata)) // 2)
        items = []
        rest = []
        for key, lst in strata.items():
            rng.shuffle(lst)
            items += lst[:floor]
            rest += lst[floor:]
        if len(items) < sample_cap:
            items += rng.sample(rest, min(len(rest), sample_cap - len(items)))
    by_depth = {}
    for h, alts in items:
        by_depth.setdefault(len(h) - (1 if isinstance(alts, dict) else 0), []).append((h, alts))
    bad_prefix = set()
    total = 0
    stats = {"match": 0, "mismatch": 0, "unrealised": 0, "skipped_below_mismatch": 0}
    nproc = min(16, os.cpu_count() or 1)
    with mp.get_context("fork").Pool(nproc) as pool:
        for depth in sorted(by_depth):
            level = []
            for h, alts in by_depth[depth]:
                hh = h[:-1] if isinstance(alts, dict) else h
                if any(_k(hh[:i]) in bad_prefix for i in range(1, len(hh) + 1)):
                    stats["skipped_below_mismatch"] += 1
                    continue
                level.append((h, alts))
            chunks = [level[i::nproc * 4] for i in range(nproc * 4)]
            for out in pool.imap_unordered(_work, [c for c in chunks if c]):
                for hist, a, st, detail in out:
                    total += 1
                    stats[st] += 1
                    if st == "unrealised":
                        continue
                    klass = (a["op"], a.get("kind", a.get("f", "")), len(hist))
                    rep.case(klass=klass + (a.get("o", 0), a.get("g", 0), a.get("rhs", -1)))
                    if st == "match":
                        rep.validated()
                        if len(hist) == 2:
                            rep.sample({"history": hist, "action": a, "verdict": "implementation state equals specification state"}, limit=3)
                    else:
                        bad_prefix.add(_k(hist + [a]))
                        sig = {"module": "Containers", "op": a["op"], "field": detail.split(":")[0].split(" ")[0], "focus": label}
                        if a["op"] == "iop":
                            sig["f"] = a["f"]
                        if a["op"] in ("index", "slice"):
                            sig["kind"] = a["kind"]
                        rep.mismatch(sig, f"after history {json.dumps(hist)} action {json.dumps(a)}: {detail}",
                                     case={"hist": hist, "alts": [[x, y] for x, y in groups.get((_k(hist), _k({k: v for k, v in a.items() if k != 'alt'})), [])],
                                           "state": states.get(_k(hist + [a]), {}).get("s")},
                                     module="containers")
    rep.part(label, replayed=total, **stats)
    if stats["match"] == 0:
        raise MachineryError(f"{label}: no transition could be replayed successfully - harness broken?")
    return total


def replay(rep, rec):
    """./check Cxx --replay file"""
    global _INIT
    case = rec["case"]
    _INIT = init_state()
    # rebuild the expected from-state by asking TLC for the same history is not needed: the case stores the deltas of the
    # final action only; the from-state is recomputed from a fresh emission restricted to the actions in the history
    norm = {"dssetbad": "dsset", "dsupdatebad": "dsupdate"}
    acts = sorted({norm.get(a["op"], a["op"]) for a in case["hist"]} | {norm.get(case["alts"][0][0]["op"], case["alts"][0][0]["op"])})
    r = common.Report(rep.pid, rep.tier, rep.seed)
    recs = tlc_emit(r, "replay", acts, len(case["hist"]) + 1)
    _INDEX.clear()
    _STATE_CACHE.clear()
    for x in recs:
        _INDEX[(_k(x["h"]), _k(x["a"]))] = x["d"]
    st, detail = replay_one(case["hist"], [(a, d) for a, d in case["alts"]])
    print("replay verdict:", st, detail or "")
    if st == "mismatch":
        rep.mismatch(rec["sig"], detail, case=case, module="containers")


# --------------------------------------------------------------------------- the three checks

def _run(rep, tier, seed, focus, acts_for_sim):
    depth_focus = 3
    idx = ops = None
    if focus == "alias":      # ~300 enabled actions per state: the deep exploration uses a reduced alphabet, depth 2 the full one
        depth_focus = {"quick": 2, "thorough": 3}[tier]
        idx, ops = ["i0", "s02", "s_2", "srev", "mask"], ["add", "mul", "div"]
    # 1. focused exhaustive exploration, every transition replayed (quick: a stratified sample of 60 000)
    # (thorough, alias focus: depth 3 is explored on seven objects - five of the pool and the first two a history creates;
    # on the whole pool it has 52 million transitions)
    recs = tlc_emit(rep, f"{focus}-bfs-depth{depth_focus}", FOCUS[focus], depth_focus, idx=idx, ops=ops,
                    objs=[1, 4, 5, 7, 8, 11, 12] if (focus == "alias" and depth_focus == 3) else None)
    cap = 400000 if tier == "thorough" else 60000
    replay_records(rep, recs, focus, f"{focus}-bfs", sample_cap=cap, seed=seed)
    del recs
    if tier == "thorough" and focus != "alias":
        # depth 4 on a reduced alphabet (one key, five index kinds): the state space of the full alphabet at depth 4 does not fit in memory
        recs = tlc_emit(rep, f"{focus}-bfs-depth4-reduced", FOCUS[focus], 4, idx=["i0", "s_2", "mask", "ia", "perm"], keys=("a",))
        replay_records(rep, recs, focus, f"{focus}-bfs4", sample_cap=300000, seed=seed)
        del recs
    if focus == "rows":
        # sorting by a key with ties: any permutation that orders the key, the same for every member
        from . import containers_world
        containers_world.POOL_TIES = True
        try:
            recs = tlc_emit(rep, "sort-ties", ["set", "sortkey"], 3, objs=[1, 5, 6], ties=True)
            replay_records(rep, recs, focus, "sort-ties", sample_cap=40000, seed=seed)
        finally:
            containers_world.POOL_TIES = False
    if focus == "dict":
        # equality of groups whose Vector members differ in their number of components: a copy of the pool Vector, a third
        # component assigned to one of the two, both inserted under the same key, compared (5 steps)
        recs = tlc_emit(rep, "eq-vectors", ["ocopy", "vset", "set", "eq"], 5, keys=("a",), objs=[5, 7, 11])
        replay_records(rep, recs, focus, "eq-vectors", sample_cap=60000 if tier == "quick" else None, seed=seed)
    if focus in ("rows", "dict"):
        # the shape gate over long insert / pop / delete / clear histories (emptying and refilling a group with another shape)
        recs = tlc_emit(rep, "gate-depth5", ["set", "pop", "del", "clear"], 5 if tier == "quick" else 6, objs=[1, 3, 4])
        replay_records(rep, recs, focus, "gate", sample_cap=40000 if tier == "quick" else 300000, seed=seed)
        # the same alphabet on ONE group with every PATH kept apart (no merging of histories that reach the same state):
        # an implementation that remembers how a state was reached (a cached shape) is replayed along every path
        if focus == "dict" or tier == "thorough":
            recs = tlc_emit(rep, "gate-paths", ["set", "pop", "del"], 5, objs=[1, 3, 4], grps=[1], paths=True)
            replay_records(rep, recs, focus, "gate-paths", sample_cap=60000 if tier == "quick" else 400000, seed=seed)
    if focus == "alias":
        # conversion - in-place update - conversion: histories of in-place operators alone, on operands in m, cm (Array and Vector) and s
        recs = tlc_emit(rep, "alias-iop-depth3", ["iop", "to"], 3 if tier == "quick" else 4, ops=["add", "mul"], objs=[1, 5, 7, 2])
        replay_records(rep, recs, focus, "alias-iop", seed=seed)
        # the same Vector laid out as the columns of one 2-D table: slices of it, in-place updates of the slices and of the
        # whole by the number 2 and by pool objects - rows outside a slice must not move whatever the memory layout is
        from . import containers_world
        containers_world.POOL_TABLE = True
        try:
            recs = tlc_emit(rep, "alias-table", ["slice", "iop", "to"], 3, idx=["i0", "s02", "s_2", "srev", "mask"], ops=["add", "mul", "div"], objs=[5, 7, 11, 12])
            replay_records(rep, recs, focus, "alias-table", sample_cap=60000 if tier == "quick" else None, seed=seed)
        finally:
            containers_world.POOL_TABLE = False
    # 2. all actions together, shallow (cross-feature interactions)
    recs = tlc_emit(rep, "all-bfs-depth2", ALL_ACTS, 2)
    replay_records(rep, recs, focus, "all-bfs", sample_cap=20000 if tier == "quick" else None, seed=seed)
    # 3. C->S: long random executions recorded executions validated by the trace specification
    from . import containers_trace
    containers_trace.run(rep, tier, seed, focus)
    rep.cov["rule"] = ("every transition of tla/Containers.tla explored by TLC (BFS to the stated depth over the focused action set, all actions to depth 2, "
                       "random behaviours) is executed on real osyris objects and the complete projected state compared; a case is distinct by "
                       "(action, index kind/operator, history length, operand ids) and non-trivial when the implementation realises the history")
    rep.assumptions += ["numpy/pint behave as installed", "the specification's pool of 7 objects (float64/int64; m, cm, s; lengths 3, 2, 0-d; one 2-component Vector) represents the shapes/dtypes the properties quantify over",
                        "object identity is observed with `is`, buffer identity with numpy.shares_memory"]


def run_c06(rep, tier, seed):
    _run(rep, tier, seed, "rows", FOCUS["rows"] + ["slice", "copy"])


def run_c17(rep, tier, seed):
    _run(rep, tier, seed, "alias", FOCUS["alias"] + ["index", "sortidx"])
    # x op= y over the unit / operand-kind lattice of ArrayMachine (scaled dimensionless units, Quantities, float32 operands):
    # value and unit of x op y, x the same object, y untouched
    from . import arrays
    arrays.run_families(rep, tier, seed, {"inplace"}, "in-place operators over the unit lattice")


def run_c20(rep, tier, seed):
    _run(rep, tier, seed, "dict", FOCUS["dict"])
