"""C05: tla/HistMachine.tla.  (1) the schedule model instantiated with the structure extracted from the kernel source;
(2) the binning tables emitted by TLC replayed on the compiled kernel and on osyris.histogram2d under several thread
counts; (3) automatic limits, log axes, mean/sum layers, masks, conservation and a many-points-few-bins stress run."""
import os
import random

from . import common, extract_kernels
from .common import MachineryError


def run_c05(rep, tier, seed):
    import numpy as np
    import numba
    import osyris
    from osyris.core.layer import Layer
    from osyris.plot.utils import hist2d
    try:
        facts = extract_kernels.kernel_facts()["hist2d"]
    except MachineryError as e:
        # the kernel was restructured beyond what the extractor understands: the schedule model cannot be instantiated with
        # the code's structure; the run-time replay below (the primary binding) still decides the property on real schedules
        facts = None
        rep.part("structure", unrecognised=str(e))
    if facts:
        rep.part("structure", **facts)
    os.makedirs(os.path.join(common.WORK, "cfg"), exist_ok=True)
    cfg = os.path.join(common.WORK, "cfg", "HistMachine.cfg")
    model = facts or {"parallel": False, "shared_augmented_updates": [], "rounding": ["floor"]}     # without facts: the intended structure (tables only)
    with open(cfg, "w") as f:
        f.write(open(os.path.join(common.TLA, "cfg", "HistMachine.cfg")).read())
        f.write(f"CONSTANTS Parallel = {'TRUE' if model['parallel'] else 'FALSE'}\n AtomicUpdate = {'FALSE' if (model['parallel'] and model['shared_augmented_updates']) else 'TRUE'}\n"
                f" Rounding = \"{model['rounding'][0]}\"\n Workers = {2 if tier == 'quick' else 3}\n")
    res = common.run_tlc("HistEmit", cfg, workers=8, timeout=1200, expect_ok=False)
    rep.tlc(res, "HistMachine schedule model with the structure of the code")
    rep.case(klass=("schedule-model",))
    if res.violated:
        inv = [l for l in res.out.splitlines() if "is violated" in l]
        rep.mismatch({"module": "HistMachine", "field": "schedule-model"},
                     f"with the structure of hist2d ({facts}) TLC finds a schedule violating {inv[:2]}: a point is lost, counted twice or binned outside floor((x-xmin)/dx)",
                     case={"facts": facts}, module="hist")
    elif "Model checking completed" not in res.out:
        raise MachineryError("TLC did not finish on HistMachine:\n" + res.out[-2000:])
    else:
        rep.validated()
    scs = [r for r in res.json_lines() if "counts" in r]
    if not scs:
        raise MachineryError("no histogram scenario emitted")
    threads = [1, 3, 16] if tier == "quick" else [1, 2, 3, 5, 7, 16]
    maxt = numba.config.NUMBA_NUM_THREADS
    threads = sorted({min(t, maxt) for t in threads})
    rng = random.Random(seed + 41)
    # ---- (2) explicit limits: kernel and histogram2d
    for i, r in enumerate(scs):
        s = r["s"]
        n = s["n"]
        xs = np.array(s["xs"], dtype=float)
        ys = np.array(s["ys"], dtype=float)
        want = np.array([[r["counts"][str(iy)][str(ix)] for ix in range(n)] for iy in range(n)], dtype=np.int64)
        vals = np.vstack([np.ones_like(xs), xs * 0.5 + 1.0]) if len(xs) else np.zeros((2, 0))
        outs = []
        for t in threads:
            numba.set_num_threads(t)
            rep.case(klass=("kernel", i % 97, n, t))
            out, counts = hist2d(xs, ys, vals, float(s["lx"][0]), float(s["lx"][1]), n, float(s["ly"][0]), float(s["ly"][1]), n)
            outs.append((out.copy(), counts.copy()))
            d = None
            if not np.array_equal(counts, want):
                d = f"counts {counts.tolist()} != specification {want.tolist()}"
            else:
                # per-bin sums of the value layers
                exp = np.zeros((2, n, n))
                for p in range(len(xs)):
                    ix = int(np.floor((xs[p] - s["lx"][0]) * n / (s["lx"][1] - s["lx"][0])))
                    iy = int(np.floor((ys[p] - s["ly"][0]) * n / (s["ly"][1] - s["ly"][0])))
                    if 0 <= ix < n and 0 <= iy < n:
                        exp[:, iy, ix] += vals[:, p]
                if not np.allclose(out, exp, rtol=1e-12, atol=0):
                    d = f"layer sums {out.tolist()} != {exp.tolist()}"
            if d:
                rep.mismatch({"module": "HistMachine", "field": "kernel-table", "threads": "n" if t > 1 else "1"},
                             f"hist2d x={s['xs']} y={s['ys']} limits {s['lx']} {s['ly']} n={n} threads={t}: {d}", case={"scenario": r, "threads": t}, module="hist")
            else:
                rep.validated()
        if any(not (np.array_equal(o[0], outs[0][0]) and np.array_equal(o[1], outs[0][1])) for o in outs[1:]):
            rep.mismatch({"module": "HistMachine", "field": "thread-dependence"}, f"hist2d result depends on the thread count for x={s['xs']} n={n}", case={"scenario": r}, module="hist")
        # the public function with explicit limits (sample)
        if len(xs) and i % 5 == 0:
            numba.set_num_threads(threads[-1])
            rep.case(klass=("histogram2d-explicit", i % 97, n))
            xs2, ys2, ws2 = xs, ys, xs * 0.5 + 1.0
            if i % 10 == 5:
                # a point without finite coordinates ahead of the others: it is in no bin, and neither is its value
                xs2 = np.concatenate([[np.nan], xs]).astype(float)
                ys2 = np.concatenate([[float(ys[0])], ys]).astype(float)
                ws2 = np.concatenate([[1.0e6], ws2])
            X, Y = osyris.Array(xs2, unit="m"), osyris.Array(ys2, unit="s")
            L = Layer(osyris.Array(ws2, unit="K", name="w"), operation="mean")
            S = Layer(osyris.Array(ws2, unit="K", name="w2"), operation="sum")
            try:
                p = osyris.histogram2d(X, Y, L, S, resolution=n, xmin=float(s["lx"][0]), xmax=float(s["lx"][1]),
                                       ymin=float(s["ly"][0]), ymax=float(s["ly"][1]), plot=False)
                q = (lambda v, u: float(v) * osyris.units(u)) if i % 10 == 0 else (lambda v, u: float(v))      # limits as plain numbers or as Quantities
                # the default layer is the number of points per bin whatever reduction the call names for value layers
                opkw = {"operation": ["mean", "sum"][i % 2]} if i % 3 == 0 else {}
                p0 = osyris.histogram2d(X, Y, resolution=n, xmin=q(s["lx"][0], "m"), xmax=q(s["lx"][1], "m"), ymin=q(s["ly"][0], "s"), ymax=q(s["ly"][1], "s"), plot=False, **opkw)
            except Exception as e:
                rep.mismatch({"module": "HistMachine", "field": "histogram2d-raises"}, f"histogram2d raised {type(e).__name__}: {e} on x={s['xs']}", case={"scenario": r}, module="hist")
                continue
            d = None
            cnt = np.ma.filled(p0.layers[0]["data"], 0)
            if not np.array_equal(cnt, want):
                d = f"default layer {cnt.tolist()} != counts {want.tolist()}"
            elif not np.array_equal(np.ma.getmaskarray(p0.layers[0]["data"]), want == 0):
                d = "bins without points are not exactly the masked bins"
            else:
                exp = np.zeros((n, n))
                for q in range(len(xs)):
                    ix = int(np.floor((xs[q] - s["lx"][0]) * n / (s["lx"][1] - s["lx"][0])))
                    iy = int(np.floor((ys[q] - s["ly"][0]) * n / (s["ly"][1] - s["ly"][0])))
                    if 0 <= ix < n and 0 <= iy < n:
                        exp[iy, ix] += xs[q] * 0.5 + 1.0
                with np.errstate(invalid="ignore", divide="ignore"):
                    mean = exp / want
                got_mean = np.ma.filled(p.layers[0]["data"], np.nan)
                got_sum = np.ma.filled(p.layers[1]["data"], 0.0)
                if not np.allclose(got_sum, exp, rtol=1e-12):
                    d = f"'sum' layer {got_sum.tolist()} != {exp.tolist()}"
                elif not np.allclose(got_mean[want > 0], mean[want > 0], rtol=1e-12):
                    d = f"'mean' layer {got_mean.tolist()} != {mean.tolist()}"
                elif not np.array_equal(np.ma.getmaskarray(p.layers[0]["data"]), want == 0):
                    d = "mask of the mean layer"
                cx = s["lx"][0] + (np.arange(n) + 0.5) * (s["lx"][1] - s["lx"][0]) / n
                if d is None and not np.allclose(p.x, cx, rtol=1e-13):
                    d = f"bin centres {p.x.tolist()} != {cx.tolist()}"
            if d:
                rep.mismatch({"module": "HistMachine", "field": "histogram2d-" + d.split(" ")[0].strip("'")}, f"histogram2d x={s['xs']} y={s['ys']} limits {s['lx']} {s['ly']} n={n}: {d}",
                             case={"scenario": r}, module="hist")
            else:
                rep.validated()
    rep.sample({"scenario": scs[3]["s"], "expected_counts": scs[3]["counts"]}, limit=2)
    # ---- (2b) nothing to bin under automatic limits: no points at all, no finite point on an axis, no positive point on a log axis -
    # an empty histogram (every bin masked), as with explicit limits
    for xs0, ys0, kw0 in (([], [], {}), ([np.nan, np.nan], [1.0, 2.0], {}), ([1.0, 2.0], [-1.0, -2.0], {"logy": True}), ([np.inf], [1.0], {"logx": True})):
        for n0 in (1, 4):
            rep.case(klass=("histogram2d-nothing", len(xs0), n0, tuple(kw0)))
            try:
                with np.errstate(all="ignore"):
                    p = osyris.histogram2d(osyris.Array(np.array(xs0, dtype=float), unit="m"), osyris.Array(np.array(ys0, dtype=float), unit="s"), resolution=n0, plot=False, **kw0)
                data = p.layers[0]["data"]
                if not np.ma.getmaskarray(data).all() or np.ma.filled(data, 0).sum() != 0:
                    rep.mismatch({"module": "HistMachine", "field": "histogram2d-nothing"}, f"histogram2d of x={xs0} y={ys0} {kw0}: bins are not all empty and masked: {np.ma.filled(data, 0).tolist()}", case={"xs": xs0, "ys": ys0}, module="hist")
                else:
                    rep.validated()
            except Exception as e:
                rep.mismatch({"module": "HistMachine", "field": "histogram2d-raises"}, f"histogram2d of x={xs0} y={ys0} {kw0} (nothing to bin, automatic limits) raised {type(e).__name__}: {e}", case={"xs": xs0, "ys": ys0}, module="hist")
    # ---- (3) automatic limits, log axes, non-finite entries: the grid the call reports must span all finite points and bin them by floor
    nauto = 150 if tier == "quick" else 1500
    for j in range(nauto):
        n = rng.choice([1, 2, 4, 7, 16])
        npts = rng.choice([1, 2, 3, 10, 200])
        logx, logy = rng.random() < 0.3, rng.random() < 0.3
        xs = np.array([rng.choice([1.0, 10.0, 100.0, 1000.0]) if logx else rng.randint(-8, 8) * 0.25 for _ in range(npts)])
        ys = np.array([rng.choice([0.01, 1.0, 100.0]) if logy else rng.randint(-3, 3) * 0.5 for _ in range(npts)])
        if rng.random() < 0.3 and npts > 2:
            xs[rng.randrange(npts)] = rng.choice([np.nan, np.inf, -np.inf])
        if rng.random() < 0.2 and npts > 2:
            ys[rng.randrange(npts)] = np.nan
        if rng.random() < 0.15:
            xs[:] = xs[0] if np.isfinite(xs[0]) else 2.0          # all points in one column
        if j % 6 == 0 and npts >= 3:
            # a constant with round-off noise (an isothermal temperature): the spread is a few units in the last place
            base = np.float64(10.0) if j % 12 else np.float32(10.0)
            lo, hi = np.nextafter(base, base - 1), np.nextafter(base, base + 1)
            ys = np.array([[lo, base, hi][i % 3] for i in range(npts)], dtype=base.dtype)
            if logy:
                ys = ys.astype(base.dtype)
        fin = np.isfinite(xs) & np.isfinite(ys)
        if logx:
            fin &= xs > 0
        if logy:
            fin &= ys > 0
        if not fin.any() or not np.isfinite(xs).any() or not np.isfinite(ys).any():
            continue
        rep.case(klass=("histogram2d-auto", n, npts, logx, logy, j % 50))
        t = rng.choice(threads)
        numba.set_num_threads(t)
        with np.errstate(all="ignore"):
            try:
                lim = {}
                if j % 5 == 2 and j % 6 != 0 and not logy and fin.sum() >= 2:          # (not on the data whose spread is a few ulps: a limit there is within rounding of the points)
                    # only the lower y limit is requested (between two data values), everything else automatic
                    fy = np.unique(ys[fin])
                    if len(fy) >= 2:
                        lim["ymin"] = float(fy[0] + 0.01 * (fy[-1] - fy[0]))       # just above the lowest value
                        fin = fin & (ys >= lim["ymin"])
                elif j % 5 in (3, 4) and j % 6 != 0 and not logy and fin.sum() >= 2:
                    fy = np.unique(ys[fin])
                    if len(fy) >= 2 and j % 5 == 3:
                        # the requested lower limit lies above every point: no point is inside the range
                        lim["ymin"] = float(fy[-1] + 0.5 * (fy[-1] - fy[0]))
                        fin = fin & (ys >= lim["ymin"])
                    elif len(fy) >= 2:
                        # the requested lower limit IS the highest value: the grid starts there, the points below are outside
                        lim["ymin"] = float(fy[-1])
                        fin = fin & (ys >= lim["ymin"])
                p = osyris.histogram2d(osyris.Array(xs, unit="m"), osyris.Array(ys, unit="s"), resolution={"x": n, "y": n} if j % 4 == 1 else n, logx=logx, logy=logy, plot=False, **lim)
            except Exception as e:
                rep.mismatch({"module": "HistMachine", "field": "histogram2d-raises"}, f"histogram2d(auto limits) raised {type(e).__name__}: {e} on x={xs.tolist()} y={ys.tolist()}",
                             case={"xs": xs.tolist(), "ys": ys.tolist(), "n": n, "logx": logx, "logy": logy}, module="hist")
                continue
        cnt = np.ma.filled(p.layers[0]["data"], 0)
        d = None
        if "ymin" in lim and n >= 2:
            edge = float(p.y[0] - 0.5 * (p.y[1] - p.y[0]))
            if abs(edge - lim["ymin"]) > 1e-9 * max(1.0, abs(lim["ymin"])):
                d = f"the grid starts at y = {edge!r}, the requested lower limit is {lim['ymin']!r}"
        if d is None and cnt.sum() != fin.sum():
            d = f"{int(cnt.sum())} points counted, {int(fin.sum())} points have finite coordinates inside the requested / automatic limits"
        elif n >= 2:
            # bin by the reported centres
            def position(v, c, log):
                if log:      # geometric edges e_i = e_0 r^i, reported centres are the arithmetic means of neighbouring edges
                    r = c[1] / c[0]
                    e0 = 2.0 * c[0] / (1.0 + r)
                    return (np.log10(v) - np.log10(e0)) / np.log10(r)
                w = c[1] - c[0]
                return (v - (c[0] - 0.5 * w)) / w
            with np.errstate(all="ignore"):
                fx = position(xs[fin], np.asarray(p.x), logx)
                fy = position(ys[fin], np.asarray(p.y), logy)
            # a point within rounding distance of an edge may fall on either side
            amb = [(0, q) for q in range(len(fx)) if abs(fx[q] - round(fx[q])) < 1e-9] + [(1, q) for q in range(len(fy)) if abs(fy[q] - round(fy[q])) < 1e-9]
            if len(amb) <= 10:
                import itertools
                found = False
                for choice in itertools.product([-1e-6, 1e-6], repeat=len(amb)):
                    gx, gy = fx.copy(), fy.copy()
                    for (ax, q), c in zip(amb, choice):
                        if ax == 0:
                            gx[q] += c
                        else:
                            gy[q] += c
                    ix, iy = np.floor(gx).astype(int), np.floor(gy).astype(int)
                    exp = np.zeros((n, n), dtype=int)
                    okk = (ix >= 0) & (ix < n) & (iy >= 0) & (iy < n)
                    np.add.at(exp, (iy[okk], ix[okk]), 1)
                    if np.array_equal(exp, cnt):
                        found = True
                        break
                if not found:
                    d = f"counts {cnt.tolist()} are not a floor binning (e.g. {exp.tolist()}) on the reported grid x={np.asarray(p.x).tolist()} y={np.asarray(p.y).tolist()}"
        if d is None and not np.array_equal(np.ma.getmaskarray(p.layers[0]["data"]), cnt == 0):
            d = "masked bins are not exactly the empty bins"
        if d:
            rep.mismatch({"module": "HistMachine", "field": "histogram2d-auto"}, f"x={xs.tolist()} y={ys.tolist()} n={n} logx={logx} logy={logy} threads={t}: {d}",
                         case={"xs": xs.tolist(), "ys": ys.tolist(), "n": n, "logx": logx, "logy": logy}, module="hist")
        else:
            rep.validated()
    # ---- stress: many points in few bins, all thread counts, repeated; exact conservation and identical results
    npt = 2_000_003 if tier == "quick" else 20_000_003        # not a multiple of the thread counts
    g = np.random.default_rng(seed + 5)
    xs = g.random(npt) * 1.2 - 0.1
    ys = g.random(npt) * 1.2 - 0.1
    w = np.ones((1, npt))
    ixs = np.floor(xs * 2).astype(int)
    iys = np.floor(ys * 2).astype(int)
    ok = (ixs >= 0) & (ixs < 2) & (iys >= 0) & (iys < 2)
    exp = np.zeros((2, 2), dtype=np.int64)
    np.add.at(exp, (iys[ok], ixs[ok]), 1)
    reps = 3 if tier == "quick" else 10
    for t in sorted({min(x, maxt) for x in threads + [7, maxt]}):
        numba.set_num_threads(t)
        for rpt in range(reps):
            rep.case(klass=("stress", t, rpt))
            out, counts = hist2d(xs, ys, w, 0.0, 1.0, 2, 0.0, 1.0, 2)
            if not np.array_equal(counts, exp) or not np.array_equal(out[0], exp.astype(float)):
                rep.mismatch({"module": "HistMachine", "field": "stress-conservation"},
                             f"{npt} points into 2x2 bins with {t} threads (repetition {rpt}): counts {counts.tolist()} (sum {int(counts.sum())}) != exact {exp.tolist()} (sum {int(exp.sum())})",
                             case={"npt": npt, "threads": t}, module="hist")
                break
            rep.validated()
    numba.set_num_threads(maxt)
    # single-precision inputs, more than 2**24 points in one bin: the default layer is still the exact number of points
    nbig = 2 ** 24 + 4099
    x32 = np.full(nbig, 0.25, dtype=np.float32)
    x32[:1000] = 0.75
    y32 = np.full(nbig, 0.5, dtype=np.float32)
    rep.case(klass=("float32-many-points-one-bin",))
    try:
        pbig = osyris.histogram2d(osyris.Array(x32, unit="m"), osyris.Array(y32, unit="s"), resolution=2, xmin=0.0, xmax=1.0, ymin=0.0, ymax=1.0, plot=False)
        cnt = np.ma.filled(pbig.layers[0]["data"], 0)
        if int(cnt[1, 0]) != nbig - 1000 or int(cnt[1, 1]) != 1000 or float(cnt.sum()) != float(nbig):
            rep.mismatch({"module": "HistMachine", "field": "float32-conservation"}, f"{nbig} float32 points ({nbig - 1000} in one bin): default layer {cnt.tolist()} does not count them all",
                         case={"n": nbig}, module="hist")
        else:
            rep.validated()
    except Exception as e:
        rep.mismatch({"module": "HistMachine", "field": "histogram2d-raises"}, f"histogram2d on {nbig} float32 points raised {type(e).__name__}: {e}", case={"n": nbig}, module="hist")
    del x32, y32
    rep.part("replay", scenarios=len(scs), thread_counts=threads, stress_points=npt, float32_points_in_one_bin=nbig - 1000)
    # several value layers in one call: one Array under two operations, and two different Arrays carrying the same (or no) name -
    # every layer is the per-bin sum / mean of its OWN values (shared with the C19 check)
    from . import layers as _layers
    _layers.run_same_array_layers(rep, tier, rng)
    rep.cov["rule"] = ("the schedule model is instantiated with the loop/update/rounding structure read from the kernel source and explored exhaustively (all partitions of 4 points over the workers, all interleavings); "
                       "TLC's exact binning tables (8 point sets x 3 y-patterns x 8 limit pairs x 3 resolutions) are replayed on the compiled kernel under each thread count and on histogram2d; automatic limits / log axes / "
                       "non-finite entries are checked against the grid the call reports; a stress run checks exact conservation; distinct = (part, scenario id, resolution, threads)")
    rep.assumptions += ["real numba schedules are sampled (thread counts x repetitions), only the model's schedules are enumerated", "inputs on a dyadic lattice: (x-xmin)/dx is exact in float64"]


def replay(rep, rec):
    print("replay: re-run ./check C05 (scenarios are regenerated deterministically); case:", str(rec.get("case"))[:500])
