"""numpy catalogue (C10): one case = function x unit assignment x argument kind x dtype (from ArrayMachine!F_Np)."""
from fractions import Fraction as F

from .arrays import EPS, NPDT, SHAPE, SPARSE, UNITSTR, cgs, check_result, close, same_snapshot, snapshot, sparse_dim_equal, unit_tol, values_for
from .units_map import sparse_of_pint

# call forms of the one-argument catalogue entries: name -> (numpy function name, args, kwargs)
FORMS = {"sum_axis0": ("sum", (), {"axis": 0}), "mean_axis1k": ("mean", (), {"axis": 1, "keepdims": True}), "sum_axis_pos": ("sum", (1,), {}),
         "amax_axis0": ("amax", (), {"axis": 0}), "cumsum_axis1": ("cumsum", (), {"axis": 1}), "sort_axis0": ("sort", (), {"axis": 0}),
         "std_axis0": ("std", (), {"axis": 0}),
         # a keyword given explicitly with its "nothing" value: out=None is no target, axis=None is the flattened array
         "sum_outn": ("sum", (), {"out": None}), "amax_axis0_outn": ("amax", (), {"axis": 0, "out": None}), "sort_axisn": ("sort", (), {"axis": None}),
         "mean_axisn": ("mean", (), {"axis": None}), "round": ("round", (), {}), "roll": ("roll", (1,), {}), "diff": ("diff", (), {}), "ptp": ("ptp", (), {})}


def run_np_case(rec, k):
    import numpy as np
    import osyris
    c, o, names = rec["c"], rec["o"], rec["names"]
    A = osyris.Array
    f, lu, ru = c["f"], names["l"], names["r"]
    dt = c["ldt"]
    lvals, larr = values_for(dt, c["ls"], k)
    if f in ("sqrt", "cbrt", "reciprocal", "std", "std_axis0"):
        lvals = [abs(v) if v != 0 else F(2) for v in lvals]
        if f == "sqrt":
            lvals = [v * v for v in lvals]
        if f == "cbrt":
            lvals = [v * v * v for v in lvals]
        larr = np.array([float(v) if larr.dtype.kind == "f" else int(v) for v in lvals], dtype=larr.dtype).reshape(larr.shape)
    if f == "reciprocal" and dt[0] == "i":
        return "skip", None, {}      # numpy's integer reciprocal truncates: not a unit question
    a = A(larr, unit=UNITSTR[lu])
    rk = c["rk"]
    raw = larr
    if rk == "none" and f.endswith("_out0"):
        # a full reduction written into a 0-d Array given as out=: the target is returned and carries the unit of the result
        name = f[:-5]
        tgt = A(0.0, unit="s")
        try:
            res = getattr(np, name)(a, out=tgt)
        except Exception as e:
            return "mismatch", f"np.{name}(a, out=<0-d Array>) raised {type(e).__name__}: {e}", {}
        want = getattr(np, name)(larr.astype(float))
        if res is not tgt:
            return "mismatch", f"np.{name}(a, out=x) did not return x", {}
        if sparse_of_pint(tgt.unit) != SPARSE[lu]:
            return "mismatch", f"unit: np.{name}(a [{lu}], out=x) left x with unit {tgt.unit}", {}
        if abs(float(tgt.values) - float(want)) > 1e-6 * max(1.0, abs(float(want))):
            return "mismatch", f"value: np.{name}(a, out=x) holds {tgt.values!r}, numpy gives {want!r}", {}
        return "match", None, {}
    if rk == "none" and f == "power_ndv":
        ex = np.array([1.0, 2.0])
        try:
            res = np.power(a, ex)
        except Exception as e:
            return ("match", None, {}) if o["raises"] else ("mismatch", f"np.power(a [{lu}], array([1., 2.])) raised {type(e).__name__}: {e}", {})
        if o["raises"]:
            return "mismatch", f"spec: np.power(a [{lu}], array([1., 2.])) raises (no single unit for the result), implementation returned unit {res.unit}", {}
        return _compare(res, np.power(np.asarray(larr, dtype=float) * float(cgs(lu)), ex), o, [dt], 1e-12, f)
    if rk == "none":
        name, args, kw = FORMS.get(f, (f, (), {}))
        if f.startswith("power_"):
            import osyris
            name, args = "power", ({"power_int2": 2, "power_nd2": np.array(2), "power_nd3": np.array(3), "power_nd1e": np.array([2]), "power_q2": 2 * osyris.units("dimensionless"), "power_a3": A(3.0), "power_s2": A(0.02, unit="m/cm")}[f],)
        fn = getattr(np, name)
        sa = snapshot(a)
        try:
            res = fn(a, *args, **kw)
        except Exception as e:
            return "mismatch", f"np.{name}{args}{kw} raised {type(e).__name__}: {e}", {}
        if not same_snapshot(sa, snapshot(a)):
            return "mismatch", f"np.{name} modified its argument", {}
        want = fn(raw, *[(2.0 if f == "power_s2" else x.values if isinstance(x, A) else getattr(x, "magnitude", x)) for x in args], **kw)
        return _compare(res, want, o, [dt], 0.0, f)
    # two operands / sequences / out=
    rdt = dt if rk in ("arr", "out", "qty") else "f8"
    rvals, rarr = values_for(rdt, c["ls"], k + 1)
    rvals = [v if v != 0 else F(3) for v in rvals]
    rarr = np.array([float(v) if rarr.dtype.kind == "f" else int(v) for v in rvals], dtype=rarr.dtype).reshape(rarr.shape)
    if rk == "arr":
        b = A(rarr, unit=UNITSTR[ru])
    elif rk == "qty":
        b = rarr * osyris.units(UNITSTR[ru])
    elif rk == "nd1":
        b = rarr
    elif rk == "float":
        b = float(rvals[0])
        rarr = np.float64(b)
    elif rk == "out":
        b = A(rarr.copy(), unit=UNITSTR[lu])
    fn = getattr(np, f)
    if f in ("concatenate", "stack", "hstack", "vstack") and rk == "float":
        return "skip", None, {}      # numpy itself refuses a bare number in a sequence of arrays
    sa, sb = snapshot(a), snapshot(b)
    if rk == "out":
        # out= : the result is written into the given Array, which is returned and carries the result unit
        out = A(np.zeros(SHAPE[c["ls"]], dtype="bool" if f == "less" else "float64"), unit=UNITSTR[ru])
        try:
            res = fn(a, out=out) if f == "sqrt" else fn(a, b, out=out)
        except Exception as e:
            return "mismatch", f"np.{f}(..., out=) raised {type(e).__name__}: {e}", {}
        if res is not out:
            return "mismatch", f"np.{f}(..., out=x) did not return x", {}
        want = fn(raw) if f == "sqrt" else fn(raw, rarr)
        exp_unit = {"add": SPARSE[lu], "maximum": SPARSE[lu], "less": [], "sqrt": None, "multiply": None}[f]
        got = sparse_of_pint(res.unit)
        if f == "multiply":
            sq = sparse_of_pint((A(1.0, unit=UNITSTR[lu]) * A(1.0, unit=UNITSTR[lu])).unit)
            if got != sq:
                return "mismatch", f"unit: out= array of np.multiply has unit {got}, product unit is {sq}", {}
        elif f == "sqrt":
            back = sparse_of_pint((res * res).unit)
            if back != SPARSE[lu]:
                return "mismatch", f"unit: out= array of np.sqrt has unit {got}", {}
        elif got != exp_unit:
            return "mismatch", f"unit: spec {exp_unit} != impl {got} (out= array must carry the unit of the result)", {}
        if not np.allclose(np.asarray(res._array, dtype=float), np.asarray(want, dtype=float), rtol=1e-12):
            return "mismatch", f"value: out= array holds {res._array!r}, numpy gives {want!r}", {}
        if f == "multiply" and k % 2 == 1:
            # out= is the SECOND operand (in another unit): the result unit is still the product of the operand units
            b2 = A(rarr.astype(float).copy(), unit=UNITSTR[ru])
            prod = sparse_of_pint((A(1.0, unit=UNITSTR[lu]) * A(1.0, unit=UNITSTR[ru])).unit)
            try:
                r2 = np.multiply(a, b2, out=b2)
            except Exception as e:
                return "mismatch", f"np.multiply(a, b, out=b) raised {type(e).__name__}: {e}", {}
            if r2 is not b2 or sparse_of_pint(r2.unit) != prod:
                return "mismatch", f"unit: np.multiply(a [{lu}], b [{ru}], out=b) has unit {sparse_of_pint(r2.unit)}, the product unit is {prod}", {}
            if not np.allclose(np.asarray(r2._array, dtype=float), np.asarray(raw, dtype=float) * np.asarray(rarr, dtype=float), rtol=1e-12):
                return "mismatch", f"value: np.multiply(a, b, out=b) holds {r2._array!r}", {}
        return "match", None, {}
    seq = f in ("concatenate", "stack", "hstack", "vstack")
    swap = seq and rk == "nd1" and k % 2 == 0          # the plain array first, the Array after it
    try:
        res = fn(([b, a] if swap else [a, b]) if (k % 2 or swap) else (a, b)) if seq else fn(a, b)
        raised = None
    except Exception as e:
        raised = e
    if not (same_snapshot(sa, snapshot(a)) and same_snapshot(sb, snapshot(b))):
        return "mismatch", f"np.{f} modified an argument", {}
    if o["raises"]:
        return ("match", None, {}) if raised is not None else ("mismatch", f"spec: np.{f} on {lu} and {ru} raises, implementation returned unit {res.unit}", {})
    if raised is not None:
        return "mismatch", f"spec: np.{f} returns, implementation raised {type(raised).__name__}: {raised}", {}
    conv = 1.0
    tol = 0.0
    if rk in ("arr", "qty") and o.get("converted"):
        conv = float(cgs(ru) / cgs(lu))
        tol = unit_tol(lu, ru)
    elif rk not in ("arr", "qty") and o.get("converted"):
        conv = float(1 / cgs(lu))            # a plain number is a dimensionless quantity: expressed in the (scaled dimensionless) unit of the Array
        tol = unit_tol(lu, lu)
    rraw = rarr * conv if conv != 1.0 else rarr
    want = fn([rraw, raw] if swap else [raw, rraw]) if seq else fn(raw, rraw)
    return _compare(res, want, o, [dt, rdt], tol, f)


def _compare(res, want, o, dts, tol, f):
    import numpy as np
    import osyris
    if not isinstance(res, osyris.Array):
        return "mismatch", f"np.{f} returned {type(res).__name__}, not an Array", {}
    want = np.asarray(want)
    scale = 1.0
    if o["unit"] != ["fractional"]:
        try:
            got = sparse_of_pint(res.unit)
        except Exception as e:
            return "mismatch", f"unit: the unit of the result of np.{f} cannot be read ({type(e).__name__}: {str(e)[:80]})", {}
        spec = [list(x) for x in o["unit"]]
        if got != spec:
            from .units_map import cgs_of_sparse, dim_of_sparse
            if o.get("bool") or any(n.startswith("?") for n, _ in got) or any(float(e) != int(e) for _, e in got) or dim_of_sparse(got) != dim_of_sparse(spec):
                return "mismatch", f"unit: spec {spec} != impl {got}", {}
            scale = float(cgs_of_sparse(spec) / cgs_of_sparse(got))      # same physical quantity under another label
    if tuple(res.shape) != tuple(want.shape):
        return "mismatch", f"shape: numpy {tuple(want.shape)} != impl {tuple(res.shape)}", {}
    if o.get("bool") != (res._array.dtype.kind == "b"):
        return "mismatch", f"dtype: {'boolean' if o.get('bool') else 'numeric'} result expected, got {res._array.dtype}", {}
    if not o.get("bool") and res._array.dtype.kind != want.dtype.kind and not o.get("converted") and scale == 1.0:
        # "values are what numpy returns on the raw values": without a unit conversion the dtype kind is numpy's
        return "mismatch", f"dtype: numpy gives {want.dtype}, impl {res._array.dtype}", {}
    eps = max(EPS[d] for d in dts) * 64 + tol
    x = np.asarray(res._array, dtype=float).ravel()
    y = np.asarray(want, dtype=float).ravel() * scale
    for i in range(len(y)):
        if abs(x[i] - y[i]) > eps * max(abs(x[i]), abs(y[i])) + 1e-300:
            return "mismatch", f"value[{i}]: numpy on raw values gives {y[i]!r}, impl {x[i]!r}", {}
    return "match", None, {}
