"""pint <-> specification unit vectors, and the independent table of accepted unit values.

The table is the "independent unit engine" of DESIGN 3.1: it never calls pint.  Metric factors are exact;
astrophysical ones are the accepted (IAU 2015 nominal / CODATA 2018 / IAU 2012) values in CGS."""
from fractions import Fraction as F

NAME_ORDER = ["mm", "cm", "m", "km", "g", "kg", "s", "min", "h", "K", "erg", "J", "W",
              "au", "pc", "yr", "M_sun", "M_earth", "M_jup", "R_sun", "R_earth", "R_jup", "L_sun", "L_bol0", "ar", "G"]
PINT_NAME = {"mm": "millimeter", "cm": "centimeter", "m": "meter", "km": "kilometer", "g": "gram", "kg": "kilogram",
             "s": "second", "min": "minute", "h": "hour", "K": "kelvin", "erg": "erg", "J": "joule", "W": "watt",
             "au": "astronomical_unit", "pc": "parsec", "yr": "year", "M_sun": "solar_mass", "M_earth": "earth_mass",
             "M_jup": "jupiter_mass", "R_sun": "solar_radius", "R_earth": "earth_radius", "R_jup": "jupiter_radius",
             "L_sun": "solar_luminosity", "L_bol0": "bolometric_luminosity", "ar": "radiation_constant", "G": "gauss"}
SPEC_NAME = {v: k for k, v in PINT_NAME.items()}

# exact CGS value of one unit (metric) / accepted value (astro)
PI = F(314159265358979323846, 10 ** 20)
CGS = {
    "mm": F(1, 10), "cm": F(1), "m": F(100), "km": F(10 ** 5), "g": F(1), "kg": F(1000), "s": F(1), "min": F(60), "h": F(3600),
    "K": F(1), "erg": F(1), "J": F(10 ** 7), "W": F(10 ** 7),
    "au": F(1495978707, 100) * 10 ** 6,            # 149 597 870 700 m exactly (IAU 2012)
    "pc": F(1495978707, 100) * 10 ** 6 * 648000 / PI,  # 648000/pi au (IAU 2015)
    "yr": F(31557600),                                # Julian year 365.25 d
    "M_sun": F(19884, 10 ** 4) * 10 ** 33, "M_earth": F(59722, 10 ** 4) * 10 ** 27, "M_jup": F(18982, 10 ** 4) * 10 ** 30,
    "R_sun": F(6957, 10 ** 3) * 10 ** 10, "R_earth": F(63781, 10 ** 4) * 10 ** 8, "R_jup": F(71492, 10 ** 4) * 10 ** 9,
    "L_sun": F(3828, 10 ** 3) * 10 ** 33, "L_bol0": F(30128, 10 ** 4) * 10 ** 35,
    "ar": F(7565733, 10 ** 6) * F(1, 10 ** 15),
    "G": F(1),       # gauss: kept as its own pseudo-dimension (5th entry of DIM); osyris labels magnetic fields in G
}
DIM = {}
for _n in ("mm", "cm", "m", "km", "au", "pc", "R_sun", "R_earth", "R_jup"):
    DIM[_n] = (1, 0, 0, 0, 0)
for _n in ("g", "kg", "M_sun", "M_earth", "M_jup"):
    DIM[_n] = (0, 1, 0, 0, 0)
for _n in ("s", "min", "h", "yr"):
    DIM[_n] = (0, 0, 1, 0, 0)
DIM["K"] = (0, 0, 0, 1, 0)
DIM["erg"] = DIM["J"] = (2, 1, -2, 0, 0)
DIM["W"] = DIM["L_sun"] = DIM["L_bol0"] = (2, 1, -3, 0, 0)
DIM["ar"] = (-1, 1, -2, -4, 0)
DIM["G"] = (0, 0, 0, 0, 1)


def sparse_of_pint(unit):
    """pint Unit -> [[name, exp], ...] in NAME_ORDER (unknown names are kept, prefixed with '?')"""
    items = {}
    for name, exp in unit._units.items():
        n = SPEC_NAME.get(name, "?" + name)
        e = int(exp) if float(exp) == int(exp) else float(exp)
        items[n] = e
    out = [[n, items[n]] for n in NAME_ORDER if n in items]
    out += [[n, items[n]] for n in sorted(items) if n not in NAME_ORDER]
    return out


def pint_of_sparse(sparse):
    """[[name, exp], ...] -> unit string understood by osyris.units"""
    if not sparse:
        return "dimensionless"
    return " * ".join(f"{PINT_NAME[n]}**({e})" for n, e in sparse)


def cgs_of_sparse(sparse):
    f = F(1)
    for n, e in sparse:
        f *= CGS[n] ** int(e)
    return f


def dim_of_sparse(sparse):
    d = [0, 0, 0, 0, 0]
    for n, e in sparse:
        for i in range(5):
            d[i] += DIM[n][i] * int(e)
    return tuple(d)


def rat(t):
    """specification Rational <<num, den, e>> -> Fraction"""
    n, d, e = t
    return F(n, d) * (F(10) ** e)
