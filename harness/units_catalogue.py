"""C08, second clause: every unit defined by osyris' default configuration converts to CGS with its accepted value, and
equivalent spellings are one unit.  The table comes from tla/UnitsCatalogue.tla."""
from fractions import Fraction as F

from . import common
from .units_map import PINT_NAME


def run(rep, tier, seed):
    import osyris
    res = common.run_tlc("UnitsCatalogue", "UnitsCatalogue.cfg", workers=1, timeout=300)
    rep.tlc(res, "UnitsCatalogue")
    tab = [r for r in res.json_lines() if "table" in r][0]
    U = osyris.units
    for e in tab["table"]:
        cgs_str = " * ".join(f"{PINT_NAME[n]}**({x})" for n, x in e["cgs"])
        want = F(e["mant"]) * F(10) ** e["exp10"]
        units_seen = []
        for sp in sorted(e["spellings"]):
            rep.case(klass=("catalogue", e["name"], sp))
            try:
                u = U(sp)
                got = (1.0 * u).to(cgs_str).magnitude
            except Exception as ex:
                rep.mismatch({"module": "UnitsCatalogue", "unit": e["name"], "field": "undefined"},
                             f"osyris.units({sp!r}) -> {cgs_str}: {type(ex).__name__}: {ex}", case={"entry": e, "spelling": sp}, module="units_catalogue")
                continue
            units_seen.append(u)
            if abs(F(got) - want) > want / e["invtol"]:
                rep.mismatch({"module": "UnitsCatalogue", "unit": e["name"], "field": "value"},
                             f"1 {sp} = {got!r} {cgs_str}, accepted value {float(want)!r} (relative tolerance 1/{e['invtol']})",
                             case={"entry": e, "spelling": sp}, module="units_catalogue")
            elif any(u != v for v in units_seen):
                rep.mismatch({"module": "UnitsCatalogue", "unit": e["name"], "field": "spelling"},
                             f"spellings {sorted(e['spellings'])} of {e['name']} give different units", case={"entry": e}, module="units_catalogue")
            else:
                rep.validated()
        # an Array converts with the same factor
        a = osyris.Array([1.0, 2.0], unit=e["name"]).to(cgs_str)
        rep.case(klass=("catalogue-array", e["name"]))
        if abs(F(float(a.values[1])) - 2 * want) > 2 * want / e["invtol"]:
            rep.mismatch({"module": "UnitsCatalogue", "unit": e["name"], "field": "array-conversion"}, f"Array([1,2],{e['name']}).to(cgs) = {a.values}",
                         case={"entry": e}, module="units_catalogue")
        else:
            rep.validated()
    for cls in tab["classes"]:
        cls = sorted(cls)
        rep.case(klass=("spellings", tuple(cls)))
        try:
            us = [U(s) for s in cls]
        except Exception as ex:
            rep.mismatch({"module": "UnitsCatalogue", "field": "spelling-undefined"}, f"osyris.units on {cls}: {type(ex).__name__}: {ex}", case={"class": cls}, module="units_catalogue")
            continue
        base = (1.0 * us[0])
        ok = all((1.0 * u).to(us[0]).magnitude == 1.0 and u.dimensionality == us[0].dimensionality for u in us)
        if not ok:
            rep.mismatch({"module": "UnitsCatalogue", "field": "spelling"}, f"equivalent spellings {cls} are not the same unit", case={"class": cls}, module="units_catalogue")
        else:
            rep.validated()
    rep.sample({"catalogue_entry": tab["table"][0]}, limit=6)
    rep.part("catalogue", entries=len(tab["table"]), spelling_classes=len(tab["classes"]))


def replay(rep, rec):
    run(rep, "quick", 0)
