"""Hilbert key for the configuration generator (owners of octs in Hilbert-ordered outputs).  The state diagram is
read from tla/Hilbert.tla, and TLC re-checks every generated ownership (RamsesLayout!HilbertConsistent), so this
transcription is not trusted."""
import os
import re

from . import common

_SD = None


def sd():
    global _SD
    if _SD is None:
        txt = open(os.path.join(common.TLA, "Hilbert.tla")).read()
        m = re.search(r"^SD == <<([0-9,\s]+)>>", txt, re.M)
        _SD = [int(x) for x in m.group(1).split(",")]
        assert len(_SD) == 192
    return _SD


def key(x, y, z, bl):
    t = sd()
    cs, k = 0, 0
    for i in range(bl - 1, -1, -1):
        d = 4 * ((x >> i) & 1) + 2 * ((y >> i) & 1) + ((z >> i) & 1)
        k += t[d + 8 + 16 * cs] * 8 ** i
        cs = t[d + 16 * cs]
    return k
