"""property id -> (harness module, entry function)"""
CHECKS = {
}
CHECKS.update({"C06": ("containers", "run_c06"), "C17": ("containers", "run_c17"), "C20": ("containers", "run_c20")})
