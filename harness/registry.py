"""property id -> (harness module, entry function)"""
CHECKS = {
}
