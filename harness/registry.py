"""property id -> (harness module, entry function)"""
CHECKS = {
}
CHECKS.update({"C06": ("containers", "run_c06"), "C17": ("containers", "run_c17"), "C20": ("containers", "run_c20")})
CHECKS.update({"C01": ("loader", "run_c01")})
CHECKS.update({"C12": ("loader", "run_c12"), "C13": ("loader", "run_c13")})
CHECKS.update({"C15": ("loader", "run_c15")})
CHECKS.update({"C04": ("hilbert", "run_c04")})
CHECKS.update({"C14": ("loader", "run_c14")})
CHECKS.update({"C02": ("arrays", "run_c02"), "C07": ("arrays", "run_c07"), "C08": ("arrays", "run_c08"), "C10": ("arrays", "run_c10")})
CHECKS.update({"C09": ("vectors", "run_c09")})
CHECKS.update({"C05": ("hist", "run_c05")})
CHECKS.update({"C03": ("maps", "run_c03"), "C11": ("maps", "run_c11")})
CHECKS.update({"C16": ("subdomain", "run_c16")})
CHECKS.update({"C18": ("direction", "run_c18")})
CHECKS.update({"C19": ("layers", "run_c19")})
