"""./check <id> [--tier quick|thorough] [--replay <path>]"""
import argparse
import importlib
import json
import os
import sys
import traceback

from . import common

# property id -> (module, function). Several properties share one specification module.
CHECKS = {
}


def register():
    """filled in as modules are built (kept in one place so MANIFEST and code agree)"""
    from . import registry
    CHECKS.update(registry.CHECKS)


def main(argv=None):
    ap = argparse.ArgumentParser()
    ap.add_argument("pid")
    ap.add_argument("--tier", default=os.environ.get("VERIF_TIER", "quick"), choices=["quick", "thorough"])
    ap.add_argument("--replay", default=None)
    args = ap.parse_args(argv)
    seed = int(os.environ.get("VERIF_SEED", "0") or 0)
    register()
    if args.pid not in CHECKS:
        print(f"unknown property {args.pid}; known: {sorted(CHECKS)}", file=sys.stderr)
        return 2
    common.isolate()
    modname, fn = CHECKS[args.pid]
    try:
        mod = importlib.import_module("harness." + modname)
        if args.replay:
            with open(args.replay) as f:
                rec = json.load(f)
            rep = common.Report(args.pid, args.tier, seed)
            getattr(mod, "replay")(rep, rec)
            for v in rep.violations:
                print(f"VIOLATION property={args.pid} replay={args.replay}")
                print("  " + v["detail"])
            for k, (kk, n, d) in rep.known_hit.items():
                print(f"KNOWN-FINDING: property={args.pid} {kk['what_fails']}")
            if not rep.violations:
                print("replay: case agrees with the specification")
            return 1 if rep.violations else 0
        rep = common.Report(args.pid, args.tier, seed)
        getattr(mod, fn)(rep, args.tier, seed)
        return rep.finish()
    except common.MachineryError as e:
        print(f"MACHINERY-ERROR {args.pid}: {e}", file=sys.stderr)
        return 2
    except Exception:
        traceback.print_exc()
        print(f"MACHINERY-ERROR {args.pid}: harness exception", file=sys.stderr)
        return 2


if __name__ == "__main__":
    sys.exit(main())
