"""C03 / C11: scenarios of tla/MapMachine.tla replayed through osyris.map.
TLC states for every sample point which loaded cell contains it; this module builds the Datagroup, calls map() under
several numba thread counts and compares every pixel of every layer (scalar, integer, vector), the mask, the pixel
coordinates and units; thick maps are reduced along the depth from TLC's 3-D table.  Oblique (irrational) normals and
omitted windows are checked against a Python point-location oracle that is itself validated against TLC's tables."""
import contextlib
import io
import json
import math
import os
import random

from . import common, extract_kernels
from .common import MachineryError

OPS = ["sum", "mean", "min", "max", "nansum", "nanmean", "nanmin", "nanmax"]


def tlc_scenarios(rep, thick, stride, label):
    os.makedirs(os.path.join(common.WORK, "cfg"), exist_ok=True)
    cfg = os.path.join(common.WORK, "cfg", f"MapMachine-{label}.cfg")
    with open(cfg, "w") as f:
        f.write(open(os.path.join(common.TLA, "cfg", "MapMachine.cfg")).read() + f"CONSTANTS Thick = {'TRUE' if thick else 'FALSE'}  Stride = {stride}\n")
    res = common.run_tlc("MapMachine", cfg, workers=16, timeout=3000)
    rep.tlc(res, label)
    out = res.json_lines()
    if not out:
        raise MachineryError("MapMachine emitted no scenario")
    return out


def build_group(sc, lbox):
    import numpy as np
    import osyris
    cells = sc["m"]["cells"]
    nd = sc["m"]["nd"]
    f = lbox / 32.0
    pos = [np.array([c["c"][d] * f for c in cells]) for d in range(nd)]
    dg = osyris.Datagroup()
    dg["position"] = osyris.Vector(*pos, unit="cm")
    dg["dx"] = osyris.Array(np.array([2 * c["h"] * f for c in cells]), unit="cm")
    n = len(cells)
    dg["density"] = osyris.Array(np.arange(1, n + 1, dtype=float) * 1.5, unit="g/cm**3")
    dg["level"] = osyris.Array(np.arange(1, n + 1, dtype=np.int64) * 3)
    vec = [np.array([(3 * k + 1) % 7 - 3 for k in range(n)], dtype=float), np.array([(5 * k + 2) % 9 - 4 for k in range(n)], dtype=float),
           np.array([(2 * k + 3) % 5 - 2 for k in range(n)], dtype=float)]
    dg["velocity"] = osyris.Vector(*vec[:nd], unit="cm/s")
    return dg, vec


def direction_of(sc):
    import osyris
    b = sc["basis"]
    if b["den"] == 1 and not b["name"].startswith("rot"):
        return b["name"] if sum(ord(ch) for ch in b["name"]) % 2 else b["name"].upper()
    V = osyris.Vector
    d = float(b["den"])
    return osyris.VectorBasis(n=V(*[x / d for x in b["n"]]), u=V(*[x / d for x in b["u"]]), v=V(*[x / d for x in b["v"]]))


def locate_py(cells, nd, p, eps):
    """python oracle: index of the containing cell, -1, or ('face', candidates)"""
    inside, touch = [], []
    for k, c in enumerate(cells):
        dmax = max(abs(p[d] - c["c"][d]) - c["h"] for d in range(nd))
        if dmax < -eps:
            inside.append(k + 1)
        elif dmax <= eps:
            touch.append(k + 1)
    if inside and not touch:
        return inside[0]
    if not inside and not touch:
        return -1
    return ("face", inside + touch)


def call_map(dg, layers, kw):
    import osyris
    with contextlib.redirect_stdout(io.StringIO()):
        return osyris.map(*layers, plot=False, **kw)


def check_thin(rep, sc, threads, rng, idx, tier):
    import numba
    import numpy as np
    import osyris
    nd = sc["m"]["nd"]
    den = sc["basis"]["den"]
    # the third box length is 1 pc in cm: coordinates are then rounded products (lattice coordinate x box length / 32),
    # as the loader builds them from code units, and cells sharing a face are a few ulp apart or overlap
    lbox = [1.0, 4.0, 3.0856775814913673e18][idx % 3]
    f = lbox / 32.0
    dg, vec = build_group(sc, lbox)
    if idx % 7 == 0:
        dg["dx"] = dg["dx"].to(["m", "mm"][(idx // 7) % 2])        # the same cells, their size held in another length unit than the positions
    unit = ["cm", "m", "mm"][idx % 3]
    scale = {"cm": 1.0, "m": 0.01, "mm": 10.0}[unit]
    nx, ny = sc["nx"], sc["ny"]
    dxl, dyl = 2 * nx * sc["s"], 2 * ny * sc["sy"]
    U = osyris.units
    kw = {"dx": dxl * f * scale * U(unit), "dy": dyl * f * scale * U(unit), "origin": osyris.Vector(*[sc["origin"][d] * f for d in range(nd)], unit="cm"),
          "resolution": nx if (nx == ny and idx % 2) else {"x": nx, "y": ny}}
    if nd == 3:
        kw["direction"] = direction_of(sc)
    if idx % 5 == 0:
        # a reduction named on a map without thickness has nothing to reduce: same pixels, same mask
        kw["operation"] = OPS[(idx // 5) % len(OPS)]
    nan_ids = set()
    if idx % 9 == 4:
        # undefined values in the FIRST layer's data: they are missing in that layer and nowhere else
        nan_ids = {k for k in range(1, len(sc["m"]["cells"]) + 1) if k % 3 == 0}
        dvals = dg["density"].values.copy()
        for k in nan_ids:
            dvals[k - 1] = np.nan
        dg["density"] = osyris.Array(dvals, unit="g/cm**3")
    layers = [dg.layer("density"), dg.layer("level"), dg.layer("velocity", mode="vec")]
    table = sc["table"][0]
    ids = np.array([[table[j][i][0] for i in range(nx)] for j in range(ny)])
    all_masked = bool((ids == -1).all())
    results = []
    for t in threads:
        numba.set_num_threads(t)
        rep.case(klass=("thin", idx % 211, sc["basis"]["name"], nx, ny, sc["s"], t))
        try:
            p = call_map(dg, layers, dict(kw, resolution=dict(kw["resolution"]) if isinstance(kw["resolution"], dict) else kw["resolution"]))
        except RuntimeError as e:
            if all_masked and "No cells were selected" in str(e):
                rep.validated()
                continue
            rep.mismatch({"module": "MapMachine", "field": "raises", "kind": "thin"}, f"{describe(sc, kw)}: map raised RuntimeError: {e}", case={"sc": sc, "idx": idx}, module="maps")
            return
        except Exception as e:
            rep.mismatch({"module": "MapMachine", "field": "raises", "kind": "thin"}, f"{describe(sc, kw)}: map raised {type(e).__name__}: {e}", case={"sc": sc, "idx": idx}, module="maps")
            return
        results.append(p)
        d = compare_thin(sc, p, ids, table, vec, f, scale, unit, den, nd, nx, ny, nan_ids)
        if d:
            rep.mismatch({"module": "MapMachine", "field": d.split(":")[0], "kind": "thin"}, f"{describe(sc, kw)} threads={t}: {d}", case={"sc": sc, "idx": idx}, module="maps")
            return
        rep.validated()
    # two derived (unnamed) quantities next to the named one: every layer shows its own values
    if idx % 6 == 1 and not all_masked and not nan_ids:
        rep.case(klass=("thin-unnamed-layers", idx % 211, nx, ny))
        Layer = osyris.core.layer.Layer
        try:
            q = call_map(dg, [dg.layer("density"), Layer(dg["density"] * 2.0), Layer(dg["density"] * 4.0 + osyris.Array(1.0, unit="g/cm**3"))],
                         dict(kw, resolution=dict(kw["resolution"]) if isinstance(kw["resolution"], dict) else kw["resolution"]))
            d0, d1, d2 = (np.ma.filled(np.ma.masked_invalid(l["data"]), np.nan) for l in q.layers)
            # pixels whose sample point lies on a cell face may be written by two workers, entry by entry (MapKernel: a torn
            # face pixel is reachable): the layers are compared where exactly one cell contains the point
            inside = np.array([[len(table[j][i]) == 1 for i in range(nx)] for j in range(ny)])
            d0, d1, d2 = (np.where(inside, x, np.nan) for x in (d0, d1, d2))
            ok = np.isfinite(d0)
            if not (np.allclose(d1[ok], 2.0 * d0[ok], rtol=1e-12) and np.allclose(d2[ok], 4.0 * d0[ok] + 1.0, rtol=1e-12) and np.array_equal(np.isfinite(d1), ok) and np.array_equal(np.isfinite(d2), ok)):
                bad = np.argwhere(ok & ~(np.isclose(d1, 2.0 * d0) & np.isclose(d2, 4.0 * d0 + 1.0)))
                j0, i0 = (bad[0] if len(bad) else (0, 0))
                rep.mismatch({"module": "MapMachine", "field": "pixel", "kind": "thin-unnamed"},
                             f"{describe(sc, kw)}: layers density, 2*density, 4*density+1 show {d0[j0, i0]!r}, {d1[j0, i0]!r}, {d2[j0, i0]!r} at pixel ({i0},{j0})", case={"sc": sc, "idx": idx}, module="maps")
            else:
                rep.validated()
        except RuntimeError:
            rep.validated()
        except Exception as e:
            rep.mismatch({"module": "MapMachine", "field": "raises", "kind": "thin-unnamed"}, f"{describe(sc, kw)}: map of unnamed layers raised {type(e).__name__}: {e}", case={"sc": sc, "idx": idx}, module="maps")
    # an integer layer mapped alone (no float layer to promote the buffer): uncovered pixels must still be masked
    if idx % 3 == 0 and (ids == -1).any() and not all_masked:
        rep.case(klass=("thin-int-only", idx % 211, nx, ny))
        try:
            q = call_map(dg, [dg.layer("level")], dict(kw, resolution=dict(kw["resolution"]) if isinstance(kw["resolution"], dict) else kw["resolution"]))
            lm = np.ma.getmaskarray(q.layers[0]["data"])
            lv = np.ma.getdata(q.layers[0]["data"])
            for j in range(ny):
                for i in range(nx):
                    cand = table[j][i]
                    allowed = [cand[0]] if cand[0] != -2 else cand[1:]
                    if lm[j, i] and -1 not in allowed:
                        raise AssertionError(f"mask: integer layer alone: pixel ({i},{j}) masked but lies in cell {allowed}")
                    if not lm[j, i] and not any(k > 0 and lv[j, i] == 3 * k for k in allowed):
                        raise AssertionError(f"mask: integer layer alone: pixel ({i},{j}) shows {lv[j, i]!r}, its sample point lies in {allowed} (-1 = no loaded cell: must be masked)")
            rep.validated()
        except AssertionError as e:
            rep.mismatch({"module": "MapMachine", "field": "mask", "kind": "thin-int-only"}, f"{describe(sc, kw)}: {e}", case={"sc": sc, "idx": idx}, module="maps")
            return
        except RuntimeError:
            pass
    for p in results[1:]:
        for a, b in zip(results[0].layers, p.layers):
            same = np.array_equal(np.ma.getmaskarray(a["data"]), np.ma.getmaskarray(b["data"])) and np.array_equal(np.ma.filled(a["data"], 0), np.ma.filled(b["data"], 0))
            if not same and not (ids == -2).any():
                rep.mismatch({"module": "MapMachine", "field": "thread-dependence", "kind": "thin"}, f"{describe(sc, kw)}: result differs between thread counts", case={"sc": sc, "idx": idx}, module="maps")
                return


def describe(sc, kw):
    return (f"mesh nd={sc['m']['nd']} {len(sc['m']['cells'])} cells, basis {sc['basis']['name']}, origin {sc['origin']}, nx={sc['nx']} ny={sc['ny']} s={sc['s']} sy={sc['sy']}"
            f" nz={sc['nz']} sz={sc['sz']}, dx={kw.get('dx')}, resolution={kw.get('resolution')}")


def compare_thin(sc, p, ids, table, vec, f, scale, unit, den, nd, nx, ny, nan_ids=()):
    import numpy as np
    from .units_map import sparse_of_pint
    cx = np.array([(2 * i - nx + 1) * sc["s"] for i in range(nx)]) * f * scale
    cy = np.array([(2 * j - ny + 1) * sc["sy"] for j in range(ny)]) * f * scale
    if not (np.allclose(p.x, cx, rtol=1e-12, atol=1e-15) and np.allclose(p.y, cy, rtol=1e-12, atol=1e-15)):
        return f"pixel-centres: x {np.asarray(p.x).tolist()} y {np.asarray(p.y).tolist()} expected {cx.tolist()} {cy.tolist()} (unit of dx: {unit})"
    dens, lev, vel = p.layers
    if sparse_of_pint(dens["unit"]) != [["cm", -3], ["g", 1]] or sparse_of_pint(vel["unit"]) != [["cm", 1], ["s", -1]] or sparse_of_pint(lev["unit"]) != []:
        return f"layer-unit: {dens['unit']}, {lev['unit']}, {vel['unit']}"
    b = sc["basis"]
    for j in range(ny):
        for i in range(nx):
            cand = table[j][i]
            allowed = [cand[0]] if cand[0] != -2 else cand[1:]
            dmasked = bool(np.ma.getmaskarray(dens["data"])[j, i]) or math.isnan(float(np.ma.getdata(dens["data"])[j, i]))
            lmasked = bool(np.ma.getmaskarray(lev["data"])[j, i])
            vmasked = bool(np.ma.getmaskarray(vel["data"])[j, i].all())
            masked = lmasked
            if lmasked != vmasked or (not dmasked and lmasked):
                return f"mask: layers disagree at pixel ({i},{j})"
            if dmasked and not lmasked and not any(k in nan_ids for k in allowed):
                return f"mask: the density layer is masked at pixel ({i},{j}) although its cell {allowed} holds a value"
            if masked:
                if -1 not in allowed:
                    return f"mask: pixel ({i},{j}) is masked but its sample point lies in loaded cell {allowed}"
                continue
            ok = False
            per_entry = [False] * 5
            for k in allowed:
                if k == -1:
                    continue
                vv = [vec[d][k - 1] for d in range(nd)] + [0.0] * (3 - nd)
                if nd == 3:
                    pu = sum(vv[d] * b["u"][d] for d in range(3)) / den
                    pv = sum(vv[d] * b["v"][d] for d in range(3)) / den
                else:
                    pu, pv = vv[0], vv[1]
                want = (1.5 * k, 3 * k, pu, pv, math.hypot(pu, pv))
                got = (float(np.ma.getdata(dens["data"])[j, i]), float(lev["data"][j, i])) + tuple(float(x) for x in vel["data"][j, i])
                close = [abs(a - g) <= 1e-12 * max(1.0, abs(a)) for a, g in zip(want, got)]
                if k in nan_ids:
                    close[0] = dmasked          # an undefined cell value shows as missing in its own layer only
                if all(close):
                    ok = True
                    break
                per_entry = [a or b for a, b in zip(per_entry, close)]
            # on a face, the stores of two touching cells may interleave entry by entry (each buffer row is written separately)
            if not ok and len(allowed) > 1 and all(per_entry):
                ok = True
            if not ok:
                return (f"pixel: ({i},{j}) shows density {float(dens['data'][j, i])!r} level {float(lev['data'][j, i])!r} vector {[float(x) for x in vel['data'][j, i]]}, "
                        f"the sample point lies in cell {allowed} (density 1.5*k, level 3*k{', masked' if -1 in allowed else ''})")
    return None


def check_thick(rep, sc, threads, rng, idx, tier):
    import warnings
    warnings.simplefilter("ignore")
    import numba
    import numpy as np
    import osyris
    from .units_map import sparse_of_pint
    nd = sc["m"]["nd"]
    den = sc["basis"]["den"]
    lbox = [1.0, 4.0, 3.0856775814913673e18][idx % 3]          # (third: 1 pc in cm, rounded coordinates as in check_thin)
    f = lbox / 32.0
    dg, vec = build_group(sc, lbox)
    if idx % 7 == 3:
        dg["dx"] = dg["dx"].to(["m", "mm"][(idx // 7) % 2])
    unit = ["cm", "m", "mm"][idx % 3]
    scale = {"cm": 1.0, "m": 0.01, "mm": 10.0}[unit]
    nx, ny, nz = sc["nx"], sc["ny"], sc["nz"]
    dxl, dyl, dzl = 2 * nx * sc["s"], 2 * ny * sc["sy"], 2 * nz * sc["sz"]
    tab = sc["table"]
    if nd == 2 and idx % 2 == 0:
        # in a 2-D mesh the samples of a column are one point whatever the depth: also for slabs much thicker than the
        # cells, sampled at more depths (the table of the first depth holds for all of them)
        dzl *= 16
        nz *= 3
        tab = [tab[0]] * nz
    U = osyris.units
    res = {"x": nx, "y": ny, "z": nz}
    pix = 0.5 * (dxl / nx + dyl / ny)
    ratio = dzl / pix
    if abs(ratio - round(ratio)) < 0.25 and round(ratio) == nz and idx % 2:
        del res["z"]            # the default depth resolution must be the nearest integer to dz / pixel size
    op = OPS[idx % len(OPS)]
    op2 = OPS[(idx // 3 + 3) % len(OPS)]
    kw = {"dx": dxl * f * scale * U(unit), "dy": dyl * f * scale * U(unit), "dz": dzl * f * U("cm"), "origin": osyris.Vector(*[sc["origin"][d] * f for d in range(nd)], unit="cm"),
          "resolution": res, "operation": op}
    if nd == 3:
        kw["direction"] = direction_of(sc)          # (a 2-D mesh has one orientation: every depth sample of a pixel is the same point)
    op3 = OPS[(idx // 5 + 1) % len(OPS)]
    layers = [dg.layer("velocity", mode="vec", operation=op3), dg.layer("density"), dg.layer("density", operation=op2)]
    ids = np.array([[[tab[k][j][i][0] for i in range(nx)] for j in range(ny)] for k in range(nz)])
    vals = np.where(ids > 0, ids * 1.5, np.nan)
    step = dzl * f / nz
    t = threads[idx % len(threads)]
    numba.set_num_threads(t)
    rep.case(klass=("thick", idx % 211, sc["basis"]["name"], nx, nz, sc["sz"], op, op2))
    try:
        with np.errstate(all="ignore"):
            import warnings
            with warnings.catch_warnings():
                warnings.simplefilter("ignore")
                p = call_map(dg, layers, dict(kw, resolution=dict(res)))
    except RuntimeError as e:
        if (ids == -1).all() and "No cells were selected" in str(e):
            rep.validated()
            return
        rep.mismatch({"module": "MapMachine", "field": "raises", "kind": "thick"}, f"{describe(sc, kw)}: map raised RuntimeError: {e}", case={"sc": sc, "idx": idx}, module="maps")
        return
    except Exception as e:
        rep.mismatch({"module": "MapMachine", "field": "raises", "kind": "thick"}, f"{describe(sc, kw)} op={op}/{op2}: map raised {type(e).__name__}: {e}", case={"sc": sc, "idx": idx}, module="maps")
        return
    d = None
    # the vector layer: every sample carries (v.u, v.v, |in-plane|); each of the three rows is reduced with the layer's operation
    b = sc["basis"]
    den = float(b["den"])
    safe = np.where(ids > 0, ids, 1) - 1
    vx, vy, vz = (np.asarray(vec[0])[safe], np.asarray(vec[1])[safe], np.asarray(vec[2])[safe])
    pu = np.where(ids > 0, (vx * b["u"][0] + vy * b["u"][1] + vz * b["u"][2]) / den, np.nan)
    pv = np.where(ids > 0, (vx * b["v"][0] + vy * b["v"][1] + vz * b["v"][2]) / den, np.nan)
    pw = np.sqrt(pu * pu + pv * pv)
    vlayer = p.layers[0]
    with np.errstate(all="ignore"):
        expv = [getattr(np, op3)(a, axis=0) for a in (pu, pv, pw)]
    fac = step if op3 in ("sum", "nansum") else 1.0
    ambv = (ids == -2).any(axis=0)
    vdata = np.ma.getdata(vlayer["data"])
    vmask = np.ma.getmaskarray(vlayer["data"])
    want_vdim = (2, 0, -1, 0, 0) if op3 in ("sum", "nansum") else (1, 0, -1, 0, 0)
    from .units_map import cgs_of_sparse as _cgs, dim_of_sparse as _dim
    vsp = sparse_of_pint(vlayer["unit"])
    if any(nm.startswith("?") for nm, _ in vsp) or _dim(vsp) != want_vdim:
        d = f"unit: vector layer with operation {op3} has unit {vlayer['unit']}"
    else:
        vf = float(_cgs(vsp))
        for j in range(ny):
            for i in range(nx):
                if ambv[j, i] or d:
                    continue
                for c3 in range(3):
                    e = float(expv[c3][j, i]) * fac
                    g = float(vdata[j, i, c3]) * vf
                    if math.isnan(e):
                        if not (vmask[j, i].all() or math.isnan(g)):
                            d = f"pixel: ({i},{j}) vector entry {c3} operation {op3}: {g!r}, expected missing"
                    elif vmask[j, i].all():
                        d = f"mask: pixel ({i},{j}) of the vector layer (operation {op3}) is masked, expected entry {c3} = {e!r}"
                    elif abs(g - e) > 1e-11 * max(abs(e), 10.0 * fac):      # sums of projections of small integer vectors: absolute scale ~10
                        d = f"pixel: ({i},{j}) vector entry {c3} operation {op3}: {g!r}, expected {e!r}" + (f" (= {op3} over the depth samples x depth step {step})" if fac != 1.0 else "")
    for layer, o in zip(p.layers[1:], (op, op2)):
        if d:
            break
        with np.errstate(all="ignore"):
            import warnings
            with warnings.catch_warnings():
                warnings.simplefilter("ignore")
                exp = getattr(np, o)(vals, axis=0)
        want_unit = [["cm", -2], ["g", 1]] if o in ("sum", "nansum") else [["cm", -3], ["g", 1]]
        if o in ("sum", "nansum"):
            exp = exp * step
        got_unit = sparse_of_pint(layer["unit"])
        ufac = 1.0
        if got_unit != want_unit:
            # another label for the same physical quantity is fine: same dimension, values scaled accordingly
            from .units_map import cgs_of_sparse, dim_of_sparse
            if any(nm.startswith("?") for nm, _ in got_unit) or dim_of_sparse(got_unit) != dim_of_sparse(want_unit):
                d = f"unit: operation {o} gives {layer['unit']}, expected the dimension of {want_unit}"
                break
            ufac = float(cgs_of_sparse(got_unit) / cgs_of_sparse(want_unit))
        exp = exp / ufac
        amb = (ids == -2).any(axis=0)
        data = layer["data"]
        # a pixel is masked (or NaN) exactly when this layer's own reduction of the column is NaN
        for j in range(ny):
            for i in range(nx):
                if amb[j, i]:
                    continue
                m = bool(np.ma.getmaskarray(data)[j, i])
                g = float(np.ma.getdata(data)[j, i])
                e = float(exp[j, i])
                if math.isnan(e):
                    if not (m or math.isnan(g)):
                        d = f"pixel: ({i},{j}) operation {o}: {g!r}, expected missing (column samples {vals[:, j, i].tolist()})"
                elif m:
                    d = f"mask: pixel ({i},{j}) operation {o} is masked, expected {e!r} (column samples {vals[:, j, i].tolist()})"
                elif not m and abs(g - e) > 1e-12 * max(abs(e), 1e-30):
                    d = f"pixel: ({i},{j}) operation {o}: {g!r}, expected {e!r} = {o} of column samples {vals[:, j, i].tolist()}" + (f" x depth step {step}" if o in ("sum", "nansum") else "")
                if d:
                    break
            if d:
                break
        if d:
            break
    if d is None and idx % 3 == 1:
        # an integer layer mapped alone (nothing promotes the sample cube to float): missing samples are still missing
        try:
            with np.errstate(all="ignore"):
                with warnings.catch_warnings():
                    warnings.simplefilter("ignore")
                    q = call_map(dg, [dg.layer("level", operation=op2)], dict(kw, resolution=dict(res)))
            lvals = np.where(ids > 0, ids * 3.0, np.nan)
            with np.errstate(all="ignore"):
                with warnings.catch_warnings():
                    warnings.simplefilter("ignore")
                    lexp = getattr(np, op2)(lvals, axis=0)
            if op2 in ("sum", "nansum"):
                lexp = lexp * step
            lfac = float((1.0 * q.layers[0]["unit"]).to("cm" if op2 in ("sum", "nansum") else "dimensionless").magnitude)
            ldata = q.layers[0]["data"]
            amb = (ids == -2).any(axis=0)
            for j in range(ny):
                for i in range(nx):
                    if amb[j, i] or d:
                        continue
                    m = bool(np.ma.getmaskarray(ldata)[j, i])
                    g = float(np.ma.getdata(ldata)[j, i]) * lfac
                    e = float(lexp[j, i])
                    if math.isnan(e):
                        if not (m or math.isnan(g)):
                            d = f"pixel: integer layer alone, ({i},{j}) operation {op2}: {g!r}, expected missing (column samples {lvals[:, j, i].tolist()})"
                    elif m or abs(g - e) > 1e-12 * max(abs(e), 1e-30):
                        d = f"pixel: integer layer alone, ({i},{j}) operation {op2}: {'masked' if m else repr(g)}, expected {e!r} (column samples {lvals[:, j, i].tolist()})"
        except RuntimeError as e:
            if not ((ids == -1).all() and "No cells were selected" in str(e)):
                d = f"raises: integer layer alone, operation {op2}: RuntimeError: {e}"
        except Exception as e:
            d = f"raises: integer layer alone, operation {op2}: {type(e).__name__}: {e}"
    if d:
        rep.mismatch({"module": "MapMachine", "field": d.split(":")[0], "kind": "thick"}, f"{describe(sc, kw)} op={op}/{op2} threads={t}: {d}", case={"sc": sc, "idx": idx}, module="maps")
    else:
        rep.validated()


def check_oblique(rep, sc, rng, idx, threads):
    """arbitrary normals and omitted windows: point location by the Python oracle on the coordinates the call reports"""
    import numba
    import numpy as np
    import osyris
    from osyris.plot.direction import get_direction
    nd = sc["m"]["nd"]
    if nd != 3:
        return
    lbox = 1.0
    f = lbox / 32.0
    dg, vec = build_group(sc, lbox)
    normals = [(1, 1, 1), (1, -2, 3), (0, 1, 1), (2, 0, 1), (1, 1, 0), (-1, 3, 0.5), (0, 0, 1), (1, -1, 0), (-3, 3, 0), (0, 1, 0)]
    nrm = normals[idx % len(normals)]
    nx = sc["nx"] * 2
    origin = [sc["origin"][d] * f for d in range(3)]
    omit = idx % 4 == 0
    if omit and idx % 8 == 0:
        # a plane clipping a corner of the domain: every cell near it lies on one side of the plane
        far = (idx // 8) % 2 == 0
        origin = [(0.95 if far else 0.05) * lbox if nrm[d] != 0 else origin[d] for d in range(3)]
        origin = [o if nrm[d] >= 0 else lbox - o for d, o in enumerate(origin)]
        nx = 8
    kw = {"origin": osyris.Vector(*origin, unit="cm"), "resolution": nx, "direction": osyris.Vector(*nrm)}
    if not omit:
        w = [0.02, 0.05, 0.11, 0.3, 0.7, 1.3][idx % 6] * lbox
        kw["dx"] = w * osyris.units("cm")
    numba.set_num_threads(threads[idx % len(threads)])
    rep.case(klass=("oblique", idx % 211, nrm, nx, omit))
    try:
        p = call_map(dg, [dg.layer("density")], kw)
        with contextlib.redirect_stdout(io.StringIO()):
            basis = get_direction(direction=osyris.Vector(*nrm))
    except RuntimeError as e:
        if "No cells were selected" in str(e):
            return
        rep.mismatch({"module": "MapMachine", "field": "raises", "kind": "oblique"}, f"normal {nrm} origin {origin} {kw.get('dx')}: {e}", case={"sc": sc, "idx": idx}, module="maps")
        return
    except Exception as e:
        rep.mismatch({"module": "MapMachine", "field": "raises", "kind": "oblique"}, f"normal {nrm} origin {origin} {kw.get('dx')}: map raised {type(e).__name__}: {e}", case={"sc": sc, "idx": idx}, module="maps")
        return
    u = np.array([float(basis.u.x.values), float(basis.u.y.values), float(basis.u.z.values)])
    v = np.array([float(basis.v.x.values), float(basis.v.y.values), float(basis.v.z.values)])
    cells = [{"c": [c["c"][d] * f for d in range(3)], "h": c["h"] * f} for c in sc["m"]["cells"]]
    data = p.layers[0]["data"]
    for j, y in enumerate(np.asarray(p.y)):
        for i, x in enumerate(np.asarray(p.x)):
            pt = np.array(origin) + x * u + y * v
            loc = locate_py(cells, 3, pt, 1e-9 * lbox)
            if isinstance(loc, tuple):
                continue
            m = bool(np.ma.getmaskarray(data)[j, i])
            if loc == -1:
                if not m:
                    rep.mismatch({"module": "MapMachine", "field": "mask", "kind": "oblique"}, f"normal {nrm} origin {origin} dx={kw.get('dx')} res={nx}: pixel ({i},{j}) at {pt.tolist()} shows {float(data[j, i])!r} but no loaded cell contains it",
                                 case={"sc": sc, "idx": idx}, module="maps")
                    return
            elif m or abs(float(data[j, i]) - 1.5 * loc) > 1e-12:
                rep.mismatch({"module": "MapMachine", "field": "pixel" if not m else "mask", "kind": "oblique"},
                             f"normal {nrm} origin {origin} dx={kw.get('dx')} res={nx}: pixel ({i},{j}) at {pt.tolist()} {'is masked' if m else 'shows ' + repr(float(data[j, i]))}, the point lies in cell {loc} (value {1.5 * loc})",
                             case={"sc": sc, "idx": idx}, module="maps")
                return
    rep.validated()


def validate_py_oracle(rep, scs):
    """the Python point-location oracle agrees with TLC's tables on the lattice scenarios"""
    n = 0
    for sc in scs[:300]:
        b, den, nd = sc["basis"], sc["basis"]["den"], sc["m"]["nd"]
        for j in range(sc["ny"]):
            for i in range(sc["nx"]):
                x = (2 * i - sc["nx"] + 1) * sc["s"]
                y = (2 * j - sc["ny"] + 1) * sc["sy"]
                kz = (j + i) % sc["nz"] if sc.get("nz") else 0          # thick scenarios: one depth per pixel
                z = (2 * kz - sc["nz"] + 1) * sc["sz"] if sc.get("nz") else 0
                pt = [sc["origin"][d] + (x * b["u"][d] + y * b["v"][d] + z * b["n"][d]) / den for d in range(3)]
                loc = locate_py(sc["m"]["cells"], nd, pt, 1e-9)
                cand = sc["table"][kz][j][i]
                want = cand[0] if cand[0] != -2 else "face"
                got = "face" if isinstance(loc, tuple) else loc
                n += 1
                if want != got:
                    raise MachineryError(f"python point location {got} disagrees with MapMachine.tla {want} at {pt}")
    return n


def rendered_sample(rep, scs, tier):
    """plot=True: the QuadMesh of the returned figure holds the layer data, the axes span the window in the unit of dx and are labelled with it"""
    import matplotlib.pyplot as plt
    import numpy as np
    import osyris
    step = 97 if tier == "quick" else 23
    for idx, sc in enumerate(scs):
        if idx % step or sc["m"]["nd"] != 3:
            continue
        table = sc["table"][0]
        if all(c[0] == -1 for row in table for c in row):
            continue
        f = 1.0 / 32.0
        dg, vec = build_group(sc, 1.0)
        nx, ny = sc["nx"], sc["ny"]
        dxl, dyl = 2 * nx * sc["s"], 2 * ny * sc["sy"]
        kw = {"dx": dxl * f * 0.01 * osyris.units("m"), "dy": dyl * f * 0.01 * osyris.units("m"), "origin": osyris.Vector(*[sc["origin"][d] * f for d in range(3)], unit="cm"),
              "resolution": {"x": nx, "y": ny}, "direction": direction_of(sc)}
        rep.case(klass=("rendered", idx))
        try:
            with contextlib.redirect_stdout(io.StringIO()):
                p = osyris.map(dg.layer("density"), plot=True, **kw)
            qm = [c for c in p.ax.collections if hasattr(c, "get_array")][0]
            arr = np.ma.masked_invalid(np.ma.asarray(qm.get_array())).reshape(ny, nx)
            data = p.layers[0]["data"]
            d = None
            if not (np.array_equal(np.ma.getmaskarray(arr), np.ma.getmaskarray(data)) and np.allclose(np.ma.filled(arr, 0), np.ma.filled(data, 0))):
                d = "rendered: the QuadMesh array differs from the layer data"
            xl, yl = p.ax.get_xlim(), p.ax.get_ylim()
            wx, wy = dxl * f * 0.01, dyl * f * 0.01
            if d is None and not (np.allclose(xl, (-wx / 2, wx / 2), rtol=1e-9) and np.allclose(yl, (-wy / 2, wy / 2), rtol=1e-9)):
                d = f"rendered: axis limits {xl} {yl} are not the window +-{wx / 2}, +-{wy / 2} in the unit of dx"
            if d is None and "[m]" not in p.ax.get_xlabel():
                d = f"rendered: x label {p.ax.get_xlabel()!r} does not carry the unit of dx"
            if d:
                rep.mismatch({"module": "MapMachine", "field": "rendered", "kind": "thin"}, f"{describe(sc, kw)}: {d}", case={"sc": sc, "idx": idx}, module="maps")
            else:
                rep.validated()
        except Exception as e:
            rep.mismatch({"module": "MapMachine", "field": "raises", "kind": "rendered"}, f"{describe(sc, kw)} plot=True: {type(e).__name__}: {e}", case={"sc": sc, "idx": idx}, module="maps")
        finally:
            plt.close("all")


def big_mesh_threads(rep, tier):
    """4096 cells, 64 x 64 pixels: every pixel against the exact cell index, for every thread count, repeated"""
    import numba
    import numpy as np
    import osyris
    n = 16
    c = (np.arange(n) + 0.5) / n
    X, Y, Z = np.meshgrid(c, c, c, indexing="ij")
    dg = osyris.Datagroup()
    dg["position"] = osyris.Vector(X.ravel(), Y.ravel(), Z.ravel(), unit="cm")
    dg["dx"] = osyris.Array(np.full(n ** 3, 1.0 / n), unit="cm")
    idxs = np.arange(n ** 3, dtype=float).reshape(n, n, n)
    dg["density"] = osyris.Array(idxs.ravel() + 1.0, unit="g/cm**3")
    dg["pressure"] = osyris.Array(2.0 * idxs.ravel() + 7.0, unit="erg/cm**3")
    res = 64
    maxt = numba.config.NUMBA_NUM_THREADS
    pix = np.floor((np.arange(res) + 0.5) / res * n).astype(int)
    iz = int(np.floor(0.53125 * n))
    want = idxs[np.ix_(pix, pix, [iz])][:, :, 0].T + 1.0          # data[j, i] <-> (x_i, y_j)
    for t in sorted({1, 2, min(7, maxt), maxt}):
        numba.set_num_threads(t)
        for rpt in range(2 if tier == "quick" else 6):
            rep.case(klass=("big-mesh", t, rpt))
            p = call_map(dg, [dg.layer("density"), dg.layer("pressure")], {"dx": 1.0 * osyris.units("cm"), "origin": osyris.Vector(0.5, 0.5, 0.53125, unit="cm"), "resolution": res, "direction": "z"})
            a = np.ma.filled(p.layers[0]["data"], -1.0)
            b = np.ma.filled(p.layers[1]["data"], -1.0)
            bad = int((a != want).sum() + (b != 2.0 * (want - 1.0) + 7.0).sum())
            if bad:
                rep.mismatch({"module": "MapMachine", "field": "pixel", "kind": "big-mesh"}, f"uniform 16^3 mesh, 64x64 pixels, {t} threads (repetition {rpt}): {bad} pixel entries do not show the cell containing their sample point",
                             case={"threads": t}, module="maps")
                break
            rep.validated()
    numba.set_num_threads(maxt)


def run_c03(rep, tier, seed):
    import numba
    import osyris  # noqa
    facts = None
    try:
        facts = extract_kernels.kernel_facts()["evaluate_on_grid"]
        rep.part("structure", **facts)
    except MachineryError as e:
        rep.part("structure", unrecognised=str(e))
    # the kernel's concurrency structure explored by TLC (MapKernel.tla): inside pixels are schedule independent, face pixels take
    # entries of touching cells; with a parallel loop a torn face pixel is reachable (recorded; the comparer accepts it per entry)
    par = bool(facts["parallel"]) if facts else True
    os.makedirs(os.path.join(common.WORK, "cfg"), exist_ok=True)
    for extra, label in (("", "MapKernel safety"), ("INVARIANT FacePixelFromOneCell\n", "MapKernel torn-face-pixel reachability")):
        cfgp = os.path.join(common.WORK, "cfg", "MapKernel" + ("2" if extra else "") + ".cfg")
        with open(cfgp, "w") as f:
            f.write(open(os.path.join(common.TLA, "cfg", "MapKernel.cfg")).read() + f"CONSTANT Parallel = {'TRUE' if par else 'FALSE'}\n" + extra)
        res = common.run_tlc("MapKernel", cfgp, workers=2, timeout=300, expect_ok=not extra)
        rep.tlc(res, label)
        if extra:
            rep.part("kernel-model", parallel=par, torn_face_pixel_reachable=bool(res.violated))
    scs = tlc_scenarios(rep, False, 37 if tier == "quick" else 3, "thin-maps")
    n = validate_py_oracle(rep, scs)
    rng = random.Random(seed + 51)
    maxt = numba.config.NUMBA_NUM_THREADS
    threads = sorted({min(t, maxt) for t in ([1, 2, 16] if tier == "quick" else [1, 2, 3, 5, 8, 16])})
    for idx, sc in enumerate(scs):
        check_thin(rep, sc, threads, rng, idx, tier)
        if idx % 2 == 0:
            check_oblique(rep, sc, rng, idx, threads)
    rendered_sample(rep, scs, tier)
    big_mesh_threads(rep, tier)
    numba.set_num_threads(maxt)
    rep.sample({"scenario": {k: scs[0][k] for k in ("basis", "origin", "nx", "ny", "s", "sy")}, "cells": len(scs[0]["m"]["cells"]), "containing_cell_per_pixel": scs[0]["table"][0]}, limit=2)
    rep.part("replay", scenarios=len(scs), thread_counts=threads, python_oracle_points_validated_against_tlc=n)
    rep.cov["rule"] = ("MapMachine.tla enumerates meshes (AMR tilings of 1-3 levels in 2-D/3-D, complete or with holes; TilingOk checked) x 9 rational bases x 6 origins x window/cell ratios 1/8..4 x resolutions "
                       "and states the containing cell of every sample point; each scenario is mapped by the real code under every thread count with scalar, integer and vector layers, windows in cm/m/mm; "
                       "oblique normals and omitted windows use the Python oracle validated against the tables; distinct = (kind, scenario id, basis, resolution, window, threads)")
    rep.assumptions += ["real numba schedules are sampled via thread counts; pixels whose sample point lies on a cell face accept any touching cell", "coordinates are dyadic, so float arithmetic of the sample points is exact for the lattice scenarios"]


def check_thick_omitted(rep, sc, rng, idx, threads):
    """dz given, dx omitted (whole horizontal range): the depth samples still cover [-dz/2, dz/2]; point location by the
    Python oracle (validated against TLC's tables) on the pixel coordinates the call reports"""
    import numba
    import numpy as np
    import osyris
    from osyris.plot.direction import get_direction
    if sc["m"]["nd"] != 3:
        return
    lbox = 1.0
    f = lbox / 32.0
    dg, vec = build_group(sc, lbox)
    normals = [(0, 0, 1), (1, 1, 1), (0, 1, 1), (1, -2, 3)]
    nrm = normals[idx % len(normals)]
    nx = [3, 4, 6][idx % 3]
    nz = [3, 4, 7][(idx // 3) % 3]
    dz = [0.09, 0.21, 0.33, 0.6][(idx // 9) % 4] * lbox
    op = OPS[idx % len(OPS)]
    origin = [sc["origin"][d] * f for d in range(3)]
    default_nz = idx % 2 == 1          # no depth resolution given: as many samples as make the step closest to the pixel size
    if idx % 5 == 4:
        # depth counts for which the floating-point quotient dz / (dz / nz) is not exactly nz: the count of samples is the
        # one requested, not one recomputed from the rounded step
        hostile = [n for n in range(2, 48) if dz / (dz / n) != n]
        if hostile:
            nz, default_nz = hostile[(idx // 5) % len(hostile)], False
    kw = {"origin": osyris.Vector(*origin, unit="cm"), "resolution": {"x": nx, "y": nx} if default_nz else {"x": nx, "y": nx, "z": nz}, "direction": osyris.Vector(*nrm),
          "dz": dz * osyris.units("cm"), "operation": op}
    numba.set_num_threads(threads[idx % len(threads)])
    rep.case(klass=("thick-omitted-window", idx % 211, nrm, nx, nz, dz, op))
    what = f"normal {nrm} origin {origin} dz={dz} cm, dx omitted, resolution {nx}x{nx}x{nz}, operation {op}"
    try:
        p = call_map(dg, [dg.layer("density")], kw)
        with contextlib.redirect_stdout(io.StringIO()):
            basis = get_direction(direction=osyris.Vector(*nrm))
    except RuntimeError as e:
        if "No cells were selected" in str(e):
            rep.validated()
            return
        rep.mismatch({"module": "MapMachine", "field": "raises", "kind": "thick-omitted"}, f"{what}: {e}", case={"sc": sc, "idx": idx}, module="maps")
        return
    except ZeroDivisionError as e:
        if default_nz:
            rep.validated()          # a slab thinner than half a pixel without a depth resolution: outside "dz from one pixel to the domain size"
            return
        rep.mismatch({"module": "MapMachine", "field": "raises", "kind": "thick-omitted"}, f"{what}: map raised {type(e).__name__}: {e}", case={"sc": sc, "idx": idx}, module="maps")
        return
    except Exception as e:
        rep.mismatch({"module": "MapMachine", "field": "raises", "kind": "thick-omitted"}, f"{what}: map raised {type(e).__name__}: {e}", case={"sc": sc, "idx": idx}, module="maps")
        return
    bu, bv, bn = [np.array([float(b.x.values), float(b.y.values), float(b.z.values)]) for b in (basis.u, basis.v, basis.n)]
    cells = [{"c": [c["c"][d] * f for d in range(3)], "h": c["h"] * f} for c in sc["m"]["cells"]]
    lay = p.layers[0]
    data = lay["data"]
    summing = op in ("sum", "nansum")
    try:
        fac = float((1.0 * lay["unit"]).to("g/cm**2" if summing else "g/cm**3").magnitude)
    except Exception:
        rep.mismatch({"module": "MapMachine", "field": "unit", "kind": "thick-omitted"}, f"{what}: unit {lay['unit']} is not the layer unit{' times a length' if summing else ''}", case={"sc": sc, "idx": idx}, module="maps")
        return
    if default_nz:
        px, py = np.asarray(p.x), np.asarray(p.y)
        pix = 0.5 * (float(px[1] - px[0]) + float(py[1] - py[0]))
        nz = int(round(dz / pix))
        if nz < 1 or abs(dz / pix - round(dz / pix)) > 0.45:
            rep.validated()          # a slab thinner than a pixel, or a ratio too close to a half-integer to name the count
            return
    step = dz / nz
    zs = [-dz / 2 + (k + 0.5) * step for k in range(nz)]
    for j, y in enumerate(np.asarray(p.y)):
        for i, x in enumerate(np.asarray(p.x)):
            col, amb = [], False
            for z in zs:
                loc = locate_py(cells, 3, np.array(origin) + x * bu + y * bv + z * bn, 1e-9 * lbox)
                if isinstance(loc, tuple):
                    amb = True
                    break
                col.append(np.nan if loc == -1 else 1.5 * loc)
            if amb:
                continue
            with np.errstate(all="ignore"):
                import warnings
                with warnings.catch_warnings():
                    warnings.simplefilter("ignore")
                    want = float(getattr(np, op)(np.array(col)))
            if summing:
                want *= step
            m = bool(np.ma.getmaskarray(data)[j, i])
            got = float(np.ma.getdata(data)[j, i]) * fac
            if np.isnan(want):
                ok = m or np.isnan(got)
            else:
                ok = (not m) and abs(got - want) <= 1e-9 * abs(want)
            if not ok:
                rep.mismatch({"module": "MapMachine", "field": "pixel", "kind": "thick-omitted"},
                             f"{what}: pixel ({i},{j}) {'is masked' if m else 'shows ' + repr(got)}, the column sampled at depths {[round(z, 4) for z in zs]} is {col} -> {want!r}",
                             case={"sc": sc, "idx": idx}, module="maps")
                return
    rep.validated()


def run_c11(rep, tier, seed):
    import numba
    import osyris  # noqa
    scs = tlc_scenarios(rep, True, 11 if tier == "quick" else 1, "thick-maps")
    rng = random.Random(seed + 52)
    maxt = numba.config.NUMBA_NUM_THREADS
    threads = sorted({min(t, maxt) for t in [1, 3, 16]})
    for idx, sc in enumerate(scs):
        check_thick(rep, sc, threads, rng, idx, tier)
    validate_py_oracle(rep, scs[:: (40 if tier == "quick" else 8)])
    for idx, sc in enumerate(scs[:: (3 if tier == "quick" else 1)]):
        check_thick_omitted(rep, sc, rng, idx, threads)
    numba.set_num_threads(maxt)
    rep.sample({"scenario": {k: scs[0][k] for k in ("basis", "origin", "nx", "ny", "nz", "s", "sz")}, "containing_cell_per_sample": scs[0]["table"]}, limit=2)
    rep.part("replay", scenarios=len(scs), operations=OPS)
    rep.cov["rule"] = ("MapMachine.tla (Thick): for every pixel the column of containing cells at the evenly spaced depths z_k; the harness reduces the column with each numpy operation (NaN for missing samples), "
                       "multiplies sum/nansum by the depth step and expects unit x length; slabs from one pixel to twice the domain, thinner and thicker than the cells they cut; per-layer operations; "
                       "default depth resolution; distinct = (scenario id, basis, nx, nz, depth step, operations)")
    rep.assumptions += ["dz of at least one pixel; the default depth resolution is only exercised where dz / pixel size is within 1/4 of an integer"]


def replay(rep, rec):
    print("replay: re-run ./check (scenarios are regenerated deterministically by TLC); scenario:", json.dumps(rec.get("case"))[:600])
