"""C09: the lattice of tla/VectorMachine.tla executed on real Vectors.  Every component of a Vector result is compared
with (a) the same operation applied by the real code to the component Arrays and (b) the exact value."""
import json
import multiprocessing as mp
import operator
import os
from fractions import Fraction as F

from . import common
from .arrays import BIN, EPS, SPARSE, UNITSTR, cgs, close, exact_bin, sparse_dim_equal, unit_tol
from .common import MachineryError
from .units_map import dim_of_sparse, sparse_of_pint

COMP_VALS = [[F(3), F(-4)], [F(1, 2), F(12)], [F(5), F(2)]]          # per component, two rows (exact in float64)
RHS_VALS = [[F(2), F(8)], [F(-1), F(1, 4)], [F(4), F(3)]]


def mkvec(n, unit, vals, k=0, late=False):
    """late: the last component is assigned after construction (v.y = ... / v.z = ...), as the library's own tests do"""
    import numpy as np
    import osyris
    comps = [np.array([float(x) for x in vals[(c + k) % 3]]) for c in range(n)]
    if late and n > 1:
        v = osyris.Vector(*comps[:-1], unit=UNITSTR[unit])
        setattr(v, "xyz"[n - 1], osyris.Array(comps[-1], unit=UNITSTR[unit]))
    else:
        v = osyris.Vector(*comps, unit=UNITSTR[unit])
    return v, [list(vals[(c + k) % 3]) for c in range(n)]


def comps_of(v):
    return [c for c in (v.x, v.y, v.z) if c is not None]


def same_array(a, b, tol=0.0):
    import numpy as np
    if sparse_of_pint(a.unit) != sparse_of_pint(b.unit):
        return f"unit {a.unit} != {b.unit}"
    if a._array.dtype != b._array.dtype or a.shape != b.shape:
        return f"dtype/shape {a._array.dtype}{a.shape} != {b._array.dtype}{b.shape}"
    if not np.array_equal(a._array, b._array):
        return f"values {a._array} != {b._array}"
    return None


def run_case(rec, k):
    import numpy as np
    import osyris
    c, o, names = rec["c"], rec["o"], rec["names"]
    lu = names["l"]
    V, A = osyris.Vector, osyris.Array
    if c["fam"] == "vbin":
        ru = names["r"]
        v, vvals = mkvec(c["nl"], lu, COMP_VALS, k, late=(c["lu"] + c["nl"] + (c.get("ru") or 0)) % 3 == 0)
        rk = c["rk"]
        if rk == "vec":
            w, wvals = mkvec(c["nr"], ru, RHS_VALS, k)
            rcomps = comps_of(w)
        elif rk == "arr":
            w = A(np.array([float(x) for x in RHS_VALS[k % 3]]), unit=UNITSTR[ru])
            rcomps = None
        elif rk == "int":
            w = 2
        elif rk == "float":
            w = 0.5
        elif rk == "npnum":
            w = np.float32(0.5) if (k + c["nl"]) % 2 else np.int64(2)
        elif rk == "nd1":
            w = np.array([float(x) for x in RHS_VALS[k % 3]])
        else:
            w = np.array([float(x) for x in RHS_VALS[k % 3]]) * osyris.units(UNITSTR[ru])
        if c["op"] in ("lt", "le", "gt", "ge", "eq", "ne") and (c["lu"] + c["nl"]) % 2 == 0:
            # an undefined value in a component: the lifted comparison answers like the Array comparison (False; True for !=)
            comps_of(v)[0]._array[0] = np.nan
            vvals[0][0] = None
        before = [cc._array.copy() for cc in comps_of(v)]
        try:
            res = BIN[c["op"]](v, w)
            raised = None
        except Exception as e:
            raised = e
        if any(not np.array_equal(b, cc._array, equal_nan=True) for b, cc in zip(before, comps_of(v))):
            return "mismatch", "the left Vector was modified"
        if o["raises"]:
            if raised is None:
                return "mismatch", f"spec: raises ({o['why']}), implementation returned {res!r}"
            if o["why"] == "components" and not isinstance(raised, ValueError):
                pass
            return "match", None
        if raised is not None:
            return "mismatch", f"spec: returns a {c['nl']}-component Vector, implementation raised {type(raised).__name__}: {raised}"
        if not isinstance(res, V) or res.nvec != c["nl"]:
            return "mismatch", f"result is not a {c['nl']}-component Vector: {res!r}"
        conv = cgs(ru) / cgs(lu) if rk in ("vec", "arr", "qty") and sparse_dim_equal(lu, ru) else F(1)
        for i, (rc, lc) in enumerate(zip(comps_of(res), comps_of(v))):
            rhs_i = rcomps[i] if rk == "vec" else w
            want = BIN[c["op"]](lc, rhs_i)              # the real Array operation on the component
            d = same_array(rc, want)
            if d:
                return "mismatch", f"component {'xyz'[i]} differs from the Array operation on that component: {d}"
            if sparse_of_pint(rc.unit) != [list(x) for x in o["unit"]]:
                return "mismatch", f"component {'xyz'[i]} unit: spec {o['unit']} != impl {sparse_of_pint(rc.unit)}"
            rv = wvals[i] if rk == "vec" else ([F(2)] * 2 if rk == "int" else [F(1, 2)] * 2 if rk == "float" else [F(w.item()).limit_denominator(4)] * 2 if rk == "npnum" else list(RHS_VALS[k % 3]))
            tol = 64 * EPS["f8"] + (unit_tol(lu, ru) if o.get("converted") else 0)
            for j, (l, r) in enumerate(zip(vvals[i], rv)):
                if l is None:
                    if bool(np.atleast_1d(rc._array)[j]) != (c["op"] == "ne"):
                        return "mismatch", f"component {'xyz'[i]} row {j}: an undefined value compares {bool(np.atleast_1d(rc._array)[j])} under {c['op']}"
                    continue
                e = exact_bin(c["op"], l, r * conv)
                g = np.atleast_1d(rc._array)[j]
                if o.get("bool"):
                    if abs(l - r * conv) > F(1, 10 ** 9) * max(abs(l), abs(r * conv)) and bool(g) != bool(e):
                        return "mismatch", f"component {'xyz'[i]} row {j}: spec {bool(e)} != impl {bool(g)}"
                elif not close(e, g, tol):
                    return "mismatch", f"component {'xyz'[i]} row {j}: exact {float(e)!r} != impl {g!r}"
        return "match", None
    if c["fam"] == "vun":
        v, vvals = mkvec(c["nl"], lu, COMP_VALS, k)
        op = c["op"]
        if op in ("rdiv2", "rmul2", "neg", "pow2", "powm1f") and c["lu"] % 2 == 1:
            # integer components: number / v is the true quotient, as for each component Array
            ints = [[3, -4], [1, 12], [5, 2]]
            v = V(*[np.array(ints[(i + k) % 3], dtype=np.int64 if k % 2 else np.int32) for i in range(c["nl"])], unit=UNITSTR[lu])
        cs = comps_of(v)
        try:
            if op == "neg":
                res, want = -v, [-a for a in cs]
            elif op == "pow2":
                res, want = v ** 2, [a ** 2 for a in cs]
            elif op == "powm1f":
                cs = comps_of(v)
                res, want = v ** -1.0, [a ** -1.0 for a in cs]
            elif op == "sqrt":
                v2 = V(*[np.abs(a._array) for a in cs], unit=UNITSTR[lu])
                res, want = np.sqrt(v2), [np.sqrt(a) for a in comps_of(v2)]
            elif op == "abs":
                res, want = np.abs(v), [np.abs(a) for a in cs]
            elif op == "rmul2":
                res, want = 2 * v, [2 * a for a in cs]
            elif op == "rdiv2":
                res, want = 2 / v, [2 / a for a in cs]
            elif op == "isfinite":
                res, want = np.isfinite(v), [np.isfinite(a) for a in cs]
            elif op == "sum":
                res, want = np.sum(v), [np.sum(a) for a in cs]
            elif op == "concatenate":
                res, want = np.concatenate([v, v]), [np.concatenate([a, a]) for a in cs]
            elif op == "slice":
                res, want = v[::-1], [a[::-1] for a in cs]
            elif op == "copy":
                res, want = v.copy(), [a.copy() for a in cs]
            elif op == "to_cm0":
                # a single point: every component is a 0-d Array (and has no len)
                v = V(*[float(COMP_VALS[i][0]) for i in range(c["nl"])], unit=UNITSTR[lu])
                cs = comps_of(v)
                if dim_of_sparse(SPARSE[lu]) != (1, 0, 0, 0, 0):
                    try:
                        v.to("cm")
                    except Exception:
                        return "match", None
                    return "mismatch", f"Vector.to('cm') of a {lu} Vector did not raise"
                res, want = v.to("cm"), [a.to("cm") for a in cs]
            elif op == "to_cm":
                if dim_of_sparse(SPARSE[lu]) != (1, 0, 0, 0, 0):
                    try:
                        v.to("cm")
                    except Exception:
                        return "match", None
                    return "mismatch", f"Vector.to('cm') of a {lu} Vector did not raise"
                res, want = v.to("cm"), [a.to("cm") for a in cs]
            elif op == "norm":
                if c["nl"] == 1 and k % 2 == 0:
                    # one component: the norm is |x|, also where x*x leaves the range of the component's dtype
                    big = V(np.array([3e20, -4e25], dtype=np.float32), unit=UNITSTR[lu])
                    rb = big.norm
                    if not np.allclose(np.asarray(rb.values, dtype=float), [3e20, 4e25], rtol=1e-6):
                        return "mismatch", f"norm of the 1-component float32 Vector [3e20, -4e25]: {rb.values}"
                if c["nl"] > 1 and k % 2 == 0:
                    # an infinite component: the norm is infinite (not undefined)
                    vi = V(*[np.array([np.inf if i == 0 else 3.0, 4.0]) for i in range(c["nl"])], unit=UNITSTR[lu])
                    ri = np.asarray(vi.norm.values, dtype=float)
                    if not (np.isinf(ri[0]) and ri[0] > 0 and abs(ri[1] - 4.0 * c["nl"] ** 0.5) < 1e-12):
                        return "mismatch", f"norm of a Vector with an infinite component: {ri.tolist()}"
                res = v.norm
                sq = [sum(vvals[i][j] ** 2 for i in range(c["nl"])) for j in range(2)]
                if not isinstance(res, osyris.Array) or sparse_of_pint(res.unit) != SPARSE[lu]:
                    return "mismatch", f"norm: unit {getattr(res, 'unit', None)} expected {lu}"
                for j in range(2):
                    g = float(np.atleast_1d(res._array)[j])
                    if g < 0 or not close(sq[j], g * g, 1e-14):
                        return "mismatch", f"norm row {j}: {g!r}, squared norm should be {float(sq[j])}"
                return "match", None
        except Exception as e:
            return "mismatch", f"{op} on a {c['nl']}-component Vector raised {type(e).__name__}: {e}"
        if not isinstance(res, V) or res.nvec != c["nl"]:
            return "mismatch", f"{op}: result is not a {c['nl']}-component Vector: {res!r}"
        for i, (rc, wc) in enumerate(zip(comps_of(res), want)):
            d = same_array(rc, wc)
            if d:
                return "mismatch", f"{op}: component {'xyz'[i]} differs from the Array operation on that component: {d}"
        return "match", None
    if c["fam"] == "vnp2":
        ru = names["r"]
        v, vvals = mkvec(c["nl"], lu, COMP_VALS, k)
        w, wvals = mkvec(c["nr"], ru, RHS_VALS, k)
        f = c["op"]
        call = (lambda: np.concatenate([v, w])) if f == "concatenate" else (lambda: getattr(np, f)(v, w))
        try:
            res = call()
        except Exception as e:
            if o["raises"]:
                return "match", None
            return "mismatch", f"np.{f} of two {c['nl']}-component Vectors raised {type(e).__name__}: {e}"
        if o["raises"]:
            return "mismatch", f"np.{f} of a {c['nl']}- and a {c['nr']}-component Vector must be rejected, returned {res!r}"
        if not isinstance(res, V) or res.nvec != c["nl"]:
            return "mismatch", f"np.{f}: result is not a {c['nl']}-component Vector: {res!r}"
        for i, (rc, a, b) in enumerate(zip(comps_of(res), comps_of(v), comps_of(w))):
            want = np.concatenate([a, b]) if f == "concatenate" else getattr(np, f)(a, b)
            d = same_array(rc, want)
            if d:
                return "mismatch", f"np.{f}: component {'xyz'[i]} differs from the Array operation on that component: {d}"
        return "match", None
    if c["fam"] == "vmix":
        # shapes (0-d with n-d, both orders) and dtypes (integer and float components): exact small integers
        def mk(vals, shp, dts, unit):
            comps = []
            for i, col in enumerate(vals):
                dt = np.int64 if dts[i % len(dts)] == "i" else np.float64
                comps.append(np.array(col if shp == "n" else col[0], dtype=dt))
            return V(*comps, unit=unit)
        av = [[2, -1, 3], [1, 2, -2], [-2, 1, 1]]
        bv = [[1, 2, -1], [-2, 0, 3], [1, -1, 2]]
        sh, dt = c["sh"], c["dt"]
        a = mk(av, sh[0], {"f": "f", "i": "i"}[dt[0]] + "f" if dt[0] == "i" else "f", "m")       # 'i': x integer, y float, z integer
        b = mk(bv, sh[1], {"f": "f", "i": "i"}[dt[1]] + "f" if dt[1] == "i" else "f", "cm")
        n = 3 if "n" in sh else 1
        col = lambda vals, shp, j: [vals[i][j if shp == "n" else 0] for i in range(3)]
        try:
            if c["op"] == "norm":
                r = a.norm
                got = np.atleast_1d(r.values).astype(float).tolist()
                na = 3 if sh[0] == "n" else 1
                want = [float(sum(x * x for x in col(av, sh[0], j))) ** 0.5 for j in range(na)]
                if sparse_of_pint(r.unit) != SPARSE["m"] or len(got) != na or any(abs(g - w_) > 1e-14 * w_ for g, w_ in zip(got, want)):
                    return "mismatch", f"norm of a Vector with components {[str(cc.dtype) for cc in comps_of(a)]}: {got} [{r.unit}], expected {want} [m]"
                return "match", None
            if c["op"] == "dot":
                r1, r2 = a.dot(b), b.dot(a)
                want = [float(sum(x * y for x, y in zip(col(av, sh[0], j), col(bv, sh[1], j)))) * 0.01 for j in range(n)]
                for r in (r1, r2):
                    fac = float((1.0 * r.unit).to("m**2").magnitude)
                    got = (np.atleast_1d(r.values).astype(float) * fac).tolist()
                    if len(got) != n or any(abs(g - w_) > 1e-13 * max(abs(w_), 0.01) for g, w_ in zip(got, want)):
                        return "mismatch", f"dot (shapes {sh}, dtypes {dt}): {got} m**2, expected {want} (a.b = b.a)"
                return "match", None
            r1, r2 = a.cross(b), b.cross(a)
            for r, sgn in ((r1, 1.0), (r2, -1.0)):
                fac = float((1.0 * r.unit).to("m**2").magnitude)
                for j in range(n):
                    x, y = col(av, sh[0], j), col(bv, sh[1], j)
                    want = [x[1] * y[2] - x[2] * y[1], x[2] * y[0] - x[0] * y[2], x[0] * y[1] - x[1] * y[0]]
                    got = [float(np.atleast_1d(cc.values)[j]) * fac * sgn for cc in comps_of(r)]
                    if any(abs(g - w_ * 0.01) > 1e-13 * max(abs(w_ * 0.01), 0.01) for g, w_ in zip(got, want)):
                        return "mismatch", f"cross (shapes {sh}, dtypes {dt}) row {j}: {got} m**2, expected {[w_ * 0.01 for w_ in want]} (a x b = -(b x a))"
            return "match", None
        except Exception as e:
            return "mismatch", f"{c['op']} with shapes {sh} and component dtypes {dt} raised {type(e).__name__}: {e}"
    if c["fam"] == "vprod" and o.get("raises"):
        n1, n2 = c["nl"], c["nr"]
        a = V(*[np.array([1.0, 2.0]) for _ in range(n1)], unit="m")
        b = V(*[np.array([3.0, 4.0]) for _ in range(n2)], unit="m")
        for x, y in ((a, b), (b, a)):
            try:
                r = x.dot(y)
            except Exception:
                continue
            return "mismatch", f"dot of a {x.nvec}- and a {y.nvec}-component Vector must be rejected, returned {r!r}"
        return "match", None
    if c["fam"] == "vprod":
        ru = names["r"]
        n = c["nl"]
        ints = [[F(2), F(-1)], [F(1), F(2)], [F(-2), F(1)]]
        ints2 = [[F(1), F(2)], [F(-2), F(0)], [F(1), F(-1)]]
        a = V(*[np.array([float(x) for x in ints[i]]) for i in range(n)], unit=UNITSTR[lu])
        b = V(*[np.array([float(x) for x in ints2[i]]) for i in range(n)], unit=UNITSTR[ru])
        fa, fb = cgs(lu), cgs(ru)
        tol = 1e-13 + unit_tol(lu, ru)
        if c["op"] == "dot":
            try:
                r1, r2 = a.dot(b), b.dot(a)
            except Exception as e:
                return "mismatch", f"dot raised {type(e).__name__}: {e}"
            for r in (r1, r2):
                sp = sparse_of_pint(r.unit)
                if any(x.startswith("?") for x, _ in sp):
                    return "mismatch", f"dot unit {r.unit}"
                want_dim = tuple(x + y for x, y in zip(dim_of_sparse(SPARSE[lu]), dim_of_sparse(SPARSE[ru])))
                if dim_of_sparse(sp) != want_dim:
                    return "mismatch", f"dot unit {r.unit} does not have the dimension of {lu}*{ru}"
                f = 1
                for nme, e in sp:
                    from .units_map import CGS
                    f *= CGS[nme] ** int(e)
                for j in range(2):
                    exact = sum(ints[i][j] * ints2[i][j] for i in range(n)) * fa * fb
                    got = F(float(np.atleast_1d(r._array)[j])) * f
                    if abs(got - exact) > F(tol) * max(abs(exact), abs(fa * fb)):
                        return "mismatch", f"dot row {j}: {float(got)!r} (cgs) != exact {float(exact)!r}: a.b must be the scalar product of the physical quantities (symmetry: a.b = b.a)"
            return "match", None
        try:
            r = a.cross(b)
            rr = b.cross(a)
        except Exception as e:
            if not sparse_dim_equal(lu, ru) and False:
                return "match", None
            return "mismatch", f"cross raised {type(e).__name__}: {e}"
        from .units_map import CGS
        for res, sign, (p, q, pv, qv) in ((r, 1, (a, b, ints, ints2)), (rr, -1, (a, b, ints, ints2))):
            sp = sparse_of_pint(res.unit)
            want_dim = tuple(x + y for x, y in zip(dim_of_sparse(SPARSE[lu]), dim_of_sparse(SPARSE[ru])))
            if dim_of_sparse(sp) != want_dim:
                return "mismatch", f"cross unit {res.unit} does not have the dimension of {lu}*{ru}"
            f = 1
            for nme, e in sp:
                f *= CGS[nme] ** int(e)
            for j in range(2):
                av = [pv[i][j] for i in range(3)]
                bv = [qv[i][j] for i in range(3)]
                ex = [av[1] * bv[2] - av[2] * bv[1], av[2] * bv[0] - av[0] * bv[2], av[0] * bv[1] - av[1] * bv[0]]
                for i, comp in enumerate(comps_of(res)):
                    got = F(float(comp._array[j])) * f
                    exact = sign * ex[i] * fa * fb
                    if abs(got - exact) > F(tol) * max(abs(exact), abs(fa * fb)):
                        return "mismatch", f"cross component {'xyz'[i]} row {j}: {float(got)!r} (cgs) != exact {float(exact)!r} (antisymmetry, a.(a x b)=0 and the Lagrange identity follow from the exact values)"
        return "match", None
    raise MachineryError("unknown family")


_RECS = None


def _work(chunk):
    out = []
    for i, k in chunk:
        try:
            st, d = run_case(_RECS[i], k)
        except MachineryError:
            raise
        except Exception as e:
            st, d = "error", f"{type(e).__name__}: {e}"
        out.append((i, k, st, d))
    return out


def run_c09(rep, tier, seed):
    global _RECS
    import osyris  # noqa
    res = common.run_tlc("VectorMachine", "VectorMachine.cfg", workers=8, timeout=1200)
    rep.tlc(res, "VectorMachine lattice + vector algebra laws over (-2..2)^3 x (-2..2)^3")
    recs = res.json_lines()
    _RECS = recs
    nk = 1 if tier == "quick" else 3
    jobs = [(i, k) for i in range(len(recs)) for k in range(nk)]
    chunks = [jobs[i::64] for i in range(64)]
    counts = {"match": 0, "mismatch": 0, "error": 0}
    errors = []
    with mp.get_context("fork").Pool(min(16, os.cpu_count() or 1)) as pool:
        for out in pool.imap_unordered(_work, [c for c in chunks if c]):
            for i, k, st, d in out:
                counts[st] += 1
                c = recs[i]["c"]
                if st == "error":
                    errors.append((c, d))
                    continue
                rep.case(klass=(c["fam"], c["op"], c["nl"], c.get("nr", 0), c.get("rk", ""), c["lu"], c.get("ru", 0), c.get("sh", ""), c.get("dt", "")))
                if st == "match":
                    rep.validated()
                    rep.sample({"case": c, "units": recs[i]["names"], "verdict": "every component equals the Array operation and the exact value"}, limit=3)
                else:
                    rep.mismatch({"module": "VectorMachine", "fam": c["fam"], "op": c["op"], "field": d.split(":")[0][:40]},
                                 f"case {json.dumps(c)} units {recs[i]['names']}: {d}", case={"rec": recs[i], "k": k}, module="vectors")
    rep.part("vectors", cases=len(recs), **counts)
    if errors:
        raise MachineryError(f"{len(errors)} cases could not be executed, e.g. {errors[0]}")
    rep.cov["rule"] = ("TLC enumerates component counts (1..3)^2 x right-operand kinds x unit pairs x operators (VectorMachine.tla, invariant LiftingLaw; ASSUME Laws = symmetry, antisymmetry, "
                       "a.(a x b)=0, Lagrange identity over 15 625 integer vector pairs); each case runs on real Vectors and every result component is compared with the real Array "
                       "operation on that component and with exact Fractions; distinct = (family, op, component counts, operand kind, unit pair)")
    rep.assumptions += ["exact inputs (dyadic / small integers); astro unit values compared with the tolerance of their accepted values"]


def replay(rep, rec):
    import osyris  # noqa
    st, d = run_case(rec["case"]["rec"], rec["case"]["k"])
    print("replay verdict:", st, d or "")
    if st == "mismatch":
        rep.mismatch(rec["sig"], d, case=rec["case"], module="vectors")
