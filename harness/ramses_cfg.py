"""Configurations of synthetic RAMSES outputs (input of tla/RamsesLayout.tla) and the concrete load() requests
that go with them.  A configuration fixes everything the C01 quantifier ranges over: dimension, cpus,
boundary regions, the oct tree with owners and ghost copies, header sizes, variable lists, particles, units."""
import itertools
import random

HYDRO_SETS = [
    ["density", "velocity", "pressure"],
    ["density", "velocity", "B_left", "B_right", "thermal_pressure", "scalar_00"],
    ["density", "pressure"],
    ["density", "momentum", "internal_energy", "temperature"],
    ["density", "velocity", "thermal_pressure", "radiative_energy_1", "passive_scalar_2"],
    # names that are proper prefixes of other names (a name in a variable list means that variable, not a family)
    ["density", "velocity", "pressure", "pressure_cr", "scalar_1", "scalar_10", "radiative_energy_1", "radiative_energy_12"],
]
RT_SETS = [[], [], ["photon_density_1", "photon_flux_1"], ["photon_density_1", "photon_flux_1", "photon_density_2", "photon_flux_2"]]
PART_DESCS = [
    [("position", "d"), ("velocity", "d"), ("mass", "d"), ("identity", "i"), ("levelp", "i"), ("family", "b"), ("tag", "b")],
    [("position", "d"), ("mass", "d"), ("identity", "i")],
    [("family", "b"), ("position", "d"), ("identity", "i"), ("velocity", "d"), ("tag", "b"), ("birth_time", "d")],
    [("identity", "i"), ("mass", "d")],
    [("position", "d"), ("mass", "i"), ("identity", "i"), ("velocity", "b")],      # dimensional variables stored as integers / bytes: scaled all the same
]
UNITS = [(2.0, 3.0, 5.0), (0.5, 8.0, 0.25), (1.66e-24, 3.0857e18, 3.1557e13), (7.0, 11.0, 13.0)]
INFIX = {"B_left": "B_{c}_left", "B_right": "B_{c}_right"}


def expand(names, ndim):
    """vector quantities become per-axis component variables, the way RAMSES writes them"""
    out = []
    for n in names:
        if n in ("velocity", "momentum", "photon_flux_1", "photon_flux_2", "position"):
            out += [f"{n}_{c}" for c in "xyz"[:ndim]]
        elif n in INFIX:
            out += [INFIX[n].format(c=c) for c in "xyz"[:ndim]]
        else:
            out.append(n)
    return out


def gen_tree(rng, ndim, levelmax, ncpu, p_refine, max_octs, owner_fn=None, levelmin=1):
    two = 2 ** ndim
    octs = [{"level": 1, "owner": 1, "father": 0, "fcell": 0, "son": [0] * two}]
    frontier = [1]
    for lev in range(1, levelmax):
        nxt = []
        for o in frontier:
            for ind in range(two):
                # levels below levelmin are completely refined (RAMSES' base grid)
                if lev < levelmin or (rng.random() < p_refine and len(octs) < max_octs):
                    octs.append({"level": lev + 1, "owner": 1, "father": o, "fcell": ind, "son": [0] * two})
                    octs[o - 1]["son"][ind] = len(octs)
                    nxt.append(len(octs))
        frontier = nxt
    for i, o in enumerate(octs):
        o["owner"] = owner_fn(i + 1, octs) if owner_fn else rng.randint(1, ncpu)
    return octs


def all_trees_1d(levelmax):
    """every oct tree of a 1-D output up to levelmax (prefix-closed sets of refined cells)"""
    def subtrees(level):
        # returns list of shapes: a shape is a tuple (left, right), each None or a shape
        if level >= levelmax:
            return [(None, None)]
        kids = [None] + subtrees(level + 1)
        return [(a, b) for a in kids for b in kids]
    shapes = subtrees(1)
    out = []
    for sh in shapes:
        octs = []

        def build(shape, level, father, fcell):
            octs.append({"level": level, "owner": 1, "father": father, "fcell": fcell, "son": [0, 0]})
            me = len(octs)
            for ind, sub in enumerate(shape):
                if sub is not None:
                    octs[me - 1]["son"][ind] = len(octs) + 1
                    build(sub, level + 1, me, ind)
        build(sh, 1, 0, 0)
        out.append(octs)
    return out


def finish(rng, octs, ndim, ncpu, nboundary, levelmax, ghost_p=0.4, **kw):
    nx = 3 if nboundary else 1
    held = []
    for f in range(1, ncpu + 1):
        mine = [i + 1 for i, o in enumerate(octs) if o["owner"] == f or rng.random() < ghost_p]
        if kw.get("shuffle", True):
            rng.shuffle(mine)
        held.append(mine)
    bocts = [[[rng.choice([0, 0, 1, 2]) for _ in range(levelmax)] for _ in range(nboundary)] for _ in range(ncpu)]
    hyd = expand(kw.get("hydro") or rng.choice(HYDRO_SETS), ndim)
    rt = expand(kw["rt"] if "rt" in kw else rng.choice(RT_SETS), ndim)
    haspart = kw.get("haspart", rng.random() < 0.6)
    desc = [list(x) for x in [(n, t) for n0, t in (kw.get("pdesc") or rng.choice(PART_DESCS)) for n in expand([n0], ndim)]]
    part = {"desc": desc, "count": [rng.choice([0, 1, 3, 5]) for _ in range(ncpu)],
            "hdr": rng.choice([[16, 4, 8, 8, 4], [16, 4, 8, 8, 4], [4, 12, 1, 24, 8]])}
    cfg = {"ndim": ndim, "ncpu": ncpu, "nboundary": nboundary, "nx": nx, "levelmax": levelmax,
           "noutput": kw.get("noutput", rng.choice([1, 2, 5])), "quadkeys": kw.get("quadkeys", rng.random() < 0.3),
           "octs": octs, "held": held, "bocts": bocts, "hydro": hyd, "grav": kw.get("grav", rng.random() < 0.5), "rt": rt,
           "haspart": haspart, "part": part,
           # harness-only fields (ignored by TLC)
           "units": list(kw.get("units") or rng.choice(UNITS)), "boxlen": kw.get("boxlen", rng.choice([1.0, 2.0, 0.5])),
           # a Hilbert decomposition gives every cpu a non-empty key interval: with fewer keys than cpus (tiny 1-D/2-D outputs) the
           # ordering is declared planar, otherwise the DOMAIN table of the info file would contradict the ownership of the octs
           "nout": kw.get("nout", rng.choice([1, 7, 12])), "ordering": kw.get("ordering", "hilbert" if (ndim < 3 and ncpu <= 2 ** (ndim * (levelmax + 1))) else "planar"),
           "sink": kw.get("sink"), "reqs": [], "hilbert3": False, "bk": [], "levelmin": kw.get("levelmin", 1)}
    return cfg


NOREQ = {"lv": [], "pos": [[], [], []], "val": [], "cpus": [], "dxl": []}


def add_requests(rng, cfg, tier):
    """the abstract requests TLC evaluates (cfg['reqs']) and the concrete load() calls built on them (cfg['calls'])"""
    c = cfg
    S = 2 ** (c["levelmax"] + 1)
    reqs = [dict(NOREQ)]
    calls = [{"req": 1, "kind": "full"}]

    def add(req, **call):
        reqs.append(req)
        calls.append(dict(call, req=len(reqs)))
    L = c["levelmax"]
    # level predicates (C12)
    for k in range(1, L + 1):
        add(dict(NOREQ, lv=[1, k]), kind="level", form="le", k=k)
    if L >= 2:
        add(dict(NOREQ, lv=[1, L - 1]), kind="level", form="lt", k=L)
        add(dict(NOREQ, lv=[2, L]), kind="level", form="between", a=1, b=L + 1)
        add(dict(NOREQ, lv=[2, 2]), kind="level", form="eq", k=2)
    if L >= 2:
        # a predicate named "level" under the particle group is no statement about the mesh
        add(dict(NOREQ, lv=[1, L - 1]), kind="level", form="lt", k=L, partlevel=1)
    if L >= 3:
        # predicates with a gap: the tree is truncated at the highest accepted level, the rejected level in between is left out
        add(dict(NOREQ, lv=[1, L, L - 1]), kind="level", form="ne", k=L - 1)
        add(dict(NOREQ, lv=[1, 3, 2]), kind="level", form="gap", a=1, b=3)
    if L >= 2:
        # a predicate on the cell size filters the leaves (no truncation); together with a level predicate that disagrees
        # with it on a level that is read, in both orders of the selection dict
        add(dict(NOREQ, dxl=[1, L - 1]), kind="dx", a=1, b=L - 1)
        add(dict(NOREQ, lv=[1, L], dxl=[1, L - 1]), kind="dx+level", form="le", k=L, a=1, b=L - 1, order="ld")
        add(dict(NOREQ, lv=[1, L - 1], dxl=[2, L]), kind="dx+level", form="le", k=L - 1, a=2, b=L, order="dl")
    if L >= 3:
        add(dict(NOREQ, lv=[1, L - 1], dxl=[1, L - 2]), kind="dx+level", form="lt", k=L, a=1, b=L - 2, order="dl")
    # value predicate on the first hydro variable (tokens are distinct, pick a median threshold)
    toks = sorted(((o + 1) * 8 + ind) * 16 + 1 for o in range(len(c["octs"])) for ind in range(2 ** c["ndim"]))
    thr = toks[len(toks) // 2]
    add(dict(NOREQ, val=[1, thr, "gt"]), kind="value", var=c["hydro"][0], thr=thr, cmp="gt")
    add(dict(NOREQ, val=[1, thr, "le"], lv=[1, max(1, L - 1)]), kind="value+level", var=c["hydro"][0], thr=thr, cmp="le", k=max(1, L - 1))
    # position intervals with faces on even lattice points (cell centres are odd: never on a bound)
    nbox = (2 if tier == "quick" else 5) + (5 if c.get("hilbert3") else 0)
    for _ in range(nbox):
        pos = [[], [], []]
        axes = rng.sample(range(c["ndim"]), rng.randint(1, c["ndim"]))
        for d in axes:
            lo = 2 * rng.randint(0, S // 2 - 1)
            hi = 2 * rng.randint(lo // 2 + 1, S // 2)
            pos[d] = [lo, hi]
        add(dict(NOREQ, pos=pos), kind="position", pos=pos)
    pos = [[], [], []]
    pos[0] = [0, S // 2]
    add(dict(NOREQ, pos=pos, val=[1, thr, "gt"]), kind="position+value", pos=pos, var=c["hydro"][0], thr=thr, cmp="gt")
    if L >= 2:
        for _ in range(2 if c.get("hilbert3") else 1):
            pos = [[], [], []]
            for d in range(c["ndim"]):
                lo = 2 * rng.randint(0, S // 2 - 1)
                pos[d] = [lo, 2 * rng.randint(lo // 2 + 1, min(S // 2, lo // 2 + 2))]
            k = rng.randint(1, L - 1)
            add(dict(NOREQ, pos=pos, lv=[1, k]), kind="position+level", pos=pos, form="le", k=k)
    # explicit cpu lists
    if c["ncpu"] > 1:
        sub = sorted(rng.sample(range(1, c["ncpu"] + 1), rng.randint(1, c["ncpu"] - 1)))
        add(dict(NOREQ, cpus=sub), kind="cpus", cpus=sub)
        # an explicit list together with a positional selection: exactly the listed cpus are read
        pos2 = [[], [], []]
        for d in range(c["ndim"]):
            lo = 2 * rng.randint(0, S // 2 - 1)
            pos2[d] = [lo, 2 * rng.randint(lo // 2 + 1, S // 2)]
        sub2 = sorted(rng.sample(range(1, c["ncpu"] + 1), rng.randint(1, c["ncpu"] - 1)))
        add(dict(NOREQ, cpus=sub2, pos=pos2), kind="position+cpus", cpus=sub2, pos=pos2)
        add(dict(NOREQ, cpus=[c["ncpu"]]), kind="cpus", cpus=[c["ncpu"]])
    # projections of the full load: groups and variable subsets (C13), sorting (C14)
    names = ["level", "cpu", "dx"] + [f"position_{x}" for x in "xyz"[:c["ndim"]]] + c["hydro"] \
        + (["grav_potential"] + [f"grav_acceleration_{x}" for x in "xyz"[:c["ndim"]]] if c["grav"] else []) + c["rt"]
    calls.append({"req": 1, "kind": "groups", "groups": ["mesh"]})
    calls.append({"req": 1, "kind": "groups", "groups": ["part"]})
    calls.append({"req": 1, "kind": "groups", "groups": ["sink"]})
    calls.append({"req": 1, "kind": "groups", "groups": ["mesh", "part"]})
    calls.append({"req": 1, "kind": "off", "off": ["part"]})
    calls.append({"req": 1, "kind": "off", "off": ["mesh"]})
    calls.append({"req": 1, "kind": "off", "off": ["mesh", "sink"]})
    nsub = 3 if tier == "quick" else 8
    for _ in range(nsub):
        k = rng.randint(1, len(names))
        calls.append({"req": 1, "kind": "vars", "group": "mesh", "vars": rng.sample(names, k)})
    calls.append({"req": 1, "kind": "vars", "group": "mesh", "vars": [n for n in names if not n.endswith("_x")]})       # partial components
    calls.append({"req": 1, "kind": "vars", "group": "mesh", "vars": [n for n in c["hydro"][:2]]})                      # no amr variable at all
    # exactly the components of one vector and nothing else; and nothing at all
    calls.append({"req": 1, "kind": "vars", "group": "mesh", "vars": [f"position_{x}" for x in "xyz"[:c["ndim"]]]})
    vel = [n for n in c["hydro"] if n.startswith("velocity_") or n.startswith("momentum_")]
    if vel:
        calls.append({"req": 1, "kind": "vars", "group": "mesh", "vars": vel})
    calls.append({"req": 1, "kind": "vars", "group": "mesh", "vars": []})
    short = [n for n in names if any(m != n and m.startswith(n) for m in names)]
    if short:
        calls.append({"req": 1, "kind": "vars", "group": "mesh", "vars": short})                 # the shorter names, none of the longer ones
        calls.append({"req": 1, "kind": "vars", "group": "mesh", "vars": [n for n in names if n not in short]})
    if c["haspart"]:
        pn = [d[0] for d in c["part"]["desc"]]
        for _ in range(2):
            calls.append({"req": 1, "kind": "vars", "group": "part", "vars": rng.sample(pn, rng.randint(1, len(pn)))})
        calls.append({"req": 1, "kind": "vars", "group": "part", "vars": pn[1:]})                                        # first column skipped
        ppos = [n for n in pn if n.startswith("position_")]
        if ppos:
            calls.append({"req": 1, "kind": "vars", "group": "part", "vars": ppos})
        scal = [n for n, t in c["part"]["desc"] if t != "b" and (c["ndim"] == 1 or n[-2:] not in ("_x", "_y", "_z"))]
        if scal:
            calls.append({"req": 1, "kind": "sort", "group": "part", "key": rng.choice(scal)})
    calls.append({"req": 1, "kind": "sort", "group": "mesh", "key": c["hydro"][0]})
    # particles only, with a sortby that also names the mesh (a dict reused from an earlier full load)
    calls.append({"req": 1, "kind": "sortx", "groups": ["part"], "sortby": {"mesh": c["hydro"][0]}})
    cfg["reqs"] = reqs
    cfg["calls"] = calls
    return cfg


def family_1d(tier, rng):
    """exhaustive 1-D family: every tree up to levelmax 3, owners and ghosts sampled per tree"""
    out = []
    for levelmax in (1, 2, 3):
        for octs in all_trees_1d(levelmax):
            for ncpu, nb in ((1, 0), (2, 0), (2, 1)):
                o2 = [dict(o, son=list(o["son"])) for o in octs]
                for o in o2:
                    o["owner"] = rng.randint(1, ncpu)
                out.append(finish(rng, o2, 1, ncpu, nb, levelmax, haspart=rng.random() < 0.3))
    return out


def seeded(n, seed, tier, ndims=(1, 2, 3)):
    rng = random.Random(seed)
    out = []
    for _ in range(n):
        ndim = rng.choice(ndims)
        ncpu = rng.choice([1, 2, 3, 4] if tier == "quick" else [1, 2, 3, 4, 6])
        nb = rng.choice([0, 0, 1, 2])
        levelmax = rng.choice([1, 2, 3] if tier == "quick" else [1, 2, 3, 4])
        p = {1: 0.7, 2: 0.5, 3: 0.35}[ndim]
        levelmin = rng.choice([1, 1, 2, 3]) if ndim < 3 else rng.choice([1, 1, 2])
        levelmin = min(levelmin, levelmax)
        octs = gen_tree(rng, ndim, levelmax, ncpu, p, 28 if tier == "quick" else 60, levelmin=levelmin)
        out.append(finish(rng, octs, ndim, ncpu, nb, levelmax, levelmin=levelmin))
    return out


# ---- 3-D outputs with a Hilbert domain decomposition (C04 / C15): owners follow the bound keys

def _centres(octs, levelmax):
    S = 2 ** (levelmax + 1)
    cen = {}
    for i, o in enumerate(octs, 1):
        if o["father"] == 0:
            cen[i] = [S // 2] * 3
        else:
            f = cen[o["father"]]
            h = 2 ** (levelmax - (o["level"] - 1))
            cen[i] = [f[d] + (2 * ((o["fcell"] >> d) & 1) - 1) * h for d in range(3)]
    return cen


def hilbert3(n, seed, tier):
    from .hilbert_py import key
    rng = random.Random(seed)
    out = []
    for _ in range(n):
        levelmax = rng.choice([2, 3] if tier == "quick" else [2, 3, 3, 4])
        ncpu = rng.choice([2, 3, 4, 5, 8, 16])
        KB = levelmax + 1
        tot = 8 ** KB
        # bound keys: random cuts, cuts at / next to key-block boundaries, empty domains
        cuts = []
        for _c in range(ncpu - 1):
            r = rng.random()
            if r < 0.4:
                cuts.append(rng.randint(0, tot))
            elif r < 0.85:
                k = rng.randint(1, KB)
                cuts.append(min(tot, max(0, rng.randint(0, 8 ** k) * 8 ** (KB - k) + rng.choice([-1, 0, 0, 1]))))
            else:
                cuts.append(cuts[-1] if cuts else 0)
        bk = [0] + sorted(cuts) + [tot]
        octs = gen_tree(rng, 3, levelmax, ncpu, rng.choice([0.25, 0.4, 0.6]), 36 if tier == "quick" else 80)
        cen = _centres(octs, levelmax)
        S = 2 ** KB
        for i, o in enumerate(octs, 1):
            if o["father"] == 0:
                k = key(S // 2, S // 2, S // 2, KB)
            else:
                f = cen[o["father"]]
                h = 2 ** (levelmax - octs[o["father"] - 1]["level"])
                p = [f[d] + (2 * ((o["fcell"] >> d) & 1) - 1) * h for d in range(3)]
                k = key(p[0], p[1], p[2], KB)
            o["owner"] = max(i2 for i2 in range(1, ncpu + 1) if bk[i2 - 1] <= k)
            if not (bk[o["owner"] - 1] <= k < bk[o["owner"]]):
                o["owner"] = next(i2 for i2 in range(1, ncpu + 1) if bk[i2 - 1] <= k < bk[i2])
        cfg = finish(rng, octs, 3, ncpu, rng.choice([0, 0, 1]), levelmax, ordering="hilbert")
        cfg["hilbert3"] = True
        cfg["bk"] = bk
        cfg["bound_keys"] = bk
        out.append(cfg)
    return out
