"""Materialise a configuration as a RAMSES output directory.  Binary files are nothing but the records TLC
computed (tla/RamsesLayout.tla) packed with Fortran record markers; text files (info, descriptors, sink CSV)
are written from the configuration fields."""
import os
import struct


def pack(recs):
    out = bytearray()
    for r in recs:
        t, v = r["t"], r["v"]
        if t == "i":
            b = struct.pack(f"={len(v)}i", *v)
        elif t == "d":
            b = struct.pack(f"={len(v)}d", *[float(x) for x in v])
        elif t == "q":
            b = struct.pack(f"={len(v)}d", *[x[0] / x[1] for x in v])
        elif t == "s":
            b = bytes(v)
        elif t == "b":
            b = struct.pack(f"={len(v)}b", *v)
        else:
            raise ValueError(t)
        out += struct.pack("=i", len(b)) + b + struct.pack("=i", len(b))
    return bytes(out)


def bound_keys(cfg):
    """info-file DOMAIN table; for non-3-D outputs any increasing sequence will do (pre-selection is not
    discriminating there), 3-D Hilbert outputs carry the keys chosen by the Hilbert specification"""
    if cfg.get("bound_keys"):
        return cfg["bound_keys"]
    tot = 2 ** (cfg["ndim"] * (cfg["levelmax"] + 1))
    n = cfg["ncpu"]
    return [i * tot // n for i in range(n)] + [tot]


def materialise(cfg, lay, path):
    num = str(cfg["nout"]).zfill(5)
    d = os.path.join(path, "output_" + num)
    os.makedirs(d)
    # an older (empty) output next to it: nout = -1 must pick the most recent one
    os.makedirs(os.path.join(path, "output_00000"), exist_ok=True)
    ud, ul, ut = cfg["units"]
    with open(os.path.join(d, f"info_{num}.txt"), "w") as f:
        f.write(f"ncpu        = {cfg['ncpu']:10d}\nndim        = {cfg['ndim']:10d}\nlevelmin    = {cfg.get('levelmin', 1):10d}\nlevelmax    = {cfg['levelmax']:10d}\n")
        f.write(f"ngridmax    = {1000:10d}\nnstep_coarse= {0:10d}\n\n")
        f.write(f"boxlen      =  {cfg['boxlen']!r}\ntime        =  0.5\naexp        =  1.0\nH0          =  1.0\n")
        f.write(f"omega_m     =  1.0\nomega_l     =  0.0\nomega_k     =  0.0\nomega_b     =  0.0\n")
        f.write(f"unit_l      =  {ul!r}\nunit_d      =  {ud!r}\nunit_t      =  {ut!r}\n\n")
        f.write(f"ordering type={cfg['ordering']}\n")
        if cfg["ordering"] == "hilbert":
            f.write("   DOMAIN   ind_min                 ind_max\n")
            bk = bound_keys(cfg)
            for i in range(cfg["ncpu"]):
                f.write(f"{i + 1:8d}   {float(bk[i]):.15E}  {float(bk[i + 1]):.15E}\n")
    with open(os.path.join(d, "hydro_file_descriptor.txt"), "w") as f:
        f.write("# version:  1\n# ivar, variable_name, variable_type\n")
        for i, v in enumerate(cfg["hydro"]):
            f.write(f"  {i + 1}, {v}, d\n")
    if cfg["rt"]:
        with open(os.path.join(d, "rt_file_descriptor.txt"), "w") as f:
            f.write("# version:  1\n# ivar, variable_name, variable_type\n")
            for i, v in enumerate(cfg["rt"]):
                f.write(f"  {i + 1}, {v}, d\n")
    if cfg["haspart"]:
        with open(os.path.join(d, "part_file_descriptor.txt"), "w") as f:
            f.write("# version:  1\n# ivar, variable_name, variable_type\n")
            for i, (v, t) in enumerate(cfg["part"]["desc"]):
                f.write(f"  {i + 1}, {v}, {t}\n")
    for fidx in range(cfg["ncpu"]):
        files = lay["files"][fidx]
        for kind in ("amr", "hydro", "grav", "rt", "part"):
            recs = files[kind]
            if kind == "hydro" and cfg.get("hshift"):
                # a derived output: the same layout with every hydro value shifted (harness-only; the expectation shifts alike)
                recs = [dict(r, v=[x + cfg["hshift"] for x in r["v"]]) if (r["tag"] == "var" and r["t"] == "d") else r for r in recs]
            if recs:
                with open(os.path.join(d, f"{kind}_{num}.out{fidx + 1:05d}"), "wb") as f:
                    f.write(pack(recs))
    if cfg.get("sink") is not None:
        with open(os.path.join(d, f"sink_{num}.csv"), "w") as f:
            f.write(cfg["sink"])
    return d


def record_spans(recs):
    """[(start byte of payload, type, count)] per record: the alignment oracle derived from the TLC layout"""
    size = {"i": 4, "d": 8, "q": 8, "s": 1, "b": 1}
    spans = []
    off = 0
    for r in recs:
        n = len(r["v"])
        spans.append((off + 4, r["t"], n, r["tag"]))
        off += 8 + n * size[r["t"]]
    return spans
