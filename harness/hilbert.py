"""C04: soundness of the Hilbert CPU pre-selection.
  1. TLC: curve lemmas (every state permutes the octants, bijectivity, prefix property, continuity), and the
     soundness model HilbertSound.tla over ALL selection boxes x all leaves at levelmax 3;
  2. S->C: osyris' _hilbert3d against Key, its state diagram against the specification's, _get_cpu_list against
     MustHave (superset) on adversarial bound keys;
  3. end-to-end: selective loads of materialised Hilbert-ordered outputs (random ones and the witnesses TLC finds
     for the unsound case) equal the filtered full load (harness/loader.py)."""
import ast
import contextlib
import io
import json
import os
import random

from . import common, loader, ramses_cfg
from .common import MachineryError


def extract_state_diagram():
    """the constant table inside osyris.io.hilbert._hilbert3d, read from the source without executing it"""
    src = open(os.path.join(common.REPO, "src", "osyris", "io", "hilbert.py")).read()
    tree = ast.parse(src)
    for node in ast.walk(tree):
        if isinstance(node, ast.FunctionDef) and node.name == "_hilbert3d":
            for sub in ast.walk(node):
                if isinstance(sub, ast.List) and len(sub.elts) == 192 and all(isinstance(e, ast.Constant) for e in sub.elts):
                    return [e.value for e in sub.elts]
    return None


def witness_cfg(rng, w, levelmax=3):
    """an output in which the leaf of witness w exists and the cpu owning its oct owns nothing else on the curve"""
    from .hilbert_py import key
    l, cx, cy, cz = w["leaf"]
    two = 8
    octs = [{"level": 1, "owner": 1, "father": 0, "fcell": 0, "son": [0] * two}]
    # refine the chain of cells containing the leaf down to level l
    for j in range(1, l):
        # the cell of level j containing the leaf: index (c >> (l - j)); inside its oct it is child number ind
        idx = [c >> (l - j) for c in (cx, cy, cz)]
        ind = (idx[0] & 1) + 2 * (idx[1] & 1) + 4 * (idx[2] & 1)
        octs.append({"level": j + 1, "owner": 1, "father": len(octs), "fcell": ind, "son": [0] * two})
        octs[-2]["son"][ind] = len(octs)
    # a few extra refinements elsewhere for variety
    KB = levelmax + 1
    tot = 8 ** KB
    k = w["fkey"]
    bk = [0, k, k + 1, tot]
    cen = ramses_cfg._centres(octs, levelmax)
    S = 2 ** KB
    for i, o in enumerate(octs, 1):
        if o["father"] == 0:
            kk = key(S // 2, S // 2, S // 2, KB)
        else:
            f = cen[o["father"]]
            h = 2 ** (levelmax - octs[o["father"] - 1]["level"])
            p = [f[d] + (2 * ((o["fcell"] >> d) & 1) - 1) * h for d in range(3)]
            kk = key(p[0], p[1], p[2], KB)
        o["owner"] = next(i2 for i2 in range(1, 4) if bk[i2 - 1] <= kk < bk[i2])
    cfg = ramses_cfg.finish(rng, octs, 3, 3, 0, levelmax, ordering="hilbert", haspart=False, rt=[], grav=False)
    cfg["hilbert3"] = True
    cfg["bk"] = bk
    cfg["bound_keys"] = bk
    pos = [[2 * iv[0], 2 * (iv[1] + 1)] for iv in w["box"]]
    cfg["reqs"] = [dict(ramses_cfg.NOREQ), dict(ramses_cfg.NOREQ, pos=pos)]
    cfg["calls"] = [{"req": 1, "kind": "full"}, {"req": 2, "kind": "position", "pos": pos}]
    return cfg


def run_c04(rep, tier, seed):
    import numpy as np
    import osyris  # noqa
    from osyris.io import hilbert as oh
    rng = random.Random(seed + 21)
    # ---- 0. the state diagram in the code is the specification's
    from .hilbert_py import sd
    table = extract_state_diagram()
    rep.case(klass=("state-diagram",))
    if table is None:
        # the table is written differently (a refactoring): the curve itself is still compared point by point below
        rep.validated()
        rep.part("state-diagram", compared=False, reason="no 192-entry literal in _hilbert3d; keys are compared instead")
    elif table != sd():
        bad = [i for i, (a, b) in enumerate(zip(table, sd())) if a != b]
        rep.mismatch({"module": "hilbert", "field": "state-diagram"}, f"state diagram entries {bad[:8]} differ from the RAMSES diagram of Hilbert.tla",
                     case={"kind": "diagram"}, module="hilbert")
    else:
        rep.validated()
    # ---- 1. cases for TLC: keys and cpu lists
    keys = [[x, y, z, 3] for x in range(8) for y in range(8) for z in range(8)]
    for bits in (1, 2, 4, 5, 6):
        n = 2 ** bits
        for _ in range(60 if tier == "quick" else 600):
            keys.append([rng.randrange(n), rng.randrange(n), rng.randrange(n), bits])
    keys += [[8, 3, 1, 3], [4, 4, 4, 2]]          # coordinates with bits above bit_length (cube index = maxdom)
    lists = []
    for _ in range(400 if tier == "quick" else 6000):
        levelmax = rng.choice([2, 3, 4])
        lmax = rng.choice([levelmax, levelmax, rng.randint(1, levelmax)])
        N = 2 ** levelmax
        box = []
        for d in range(3):
            if rng.random() < 0.25:
                box.append([0, N - 1])
            else:
                a = rng.randrange(N)
                b = rng.randrange(a, min(N, a + rng.choice([1, 1, 2, 3, N])))
                box.append([a, b])
        ncpu = rng.choice([1, 2, 3, 5, 8])
        tot = 8 ** (levelmax + 1)
        cuts = []
        for _c in range(ncpu - 1):
            r = rng.random()
            if r < 0.4:
                cuts.append(rng.randint(0, tot))
            elif r < 0.85:
                k = rng.randint(1, levelmax + 1)
                cuts.append(min(tot, max(0, rng.randint(0, 8 ** k) * 8 ** (levelmax + 1 - k) + rng.choice([-1, 0, 0, 1]))))
            else:
                cuts.append(cuts[-1] if cuts else 0)
        last = tot
        if rng.random() < 0.25:
            last = tot - rng.choice([1, 3, 8 ** rng.randint(0, levelmax) // 2 + 1])      # the printed last key rounded down
        lists.append({"box": box, "levelmax": levelmax, "lmax": lmax, "bk": [0] + sorted(min(c_, last) for c_ in cuts) + [last]})
    wd = os.path.join(common.WORK, "hilbert")
    os.makedirs(wd, exist_ok=True)
    with open(os.path.join(wd, "cases.json"), "w") as f:
        json.dump({"keys": keys, "lists": lists}, f)
    os.makedirs(os.path.join(common.WORK, "cfg"), exist_ok=True)

    def hs_cfg(lm, sample):
        path = os.path.join(common.WORK, "cfg", f"HilbertSound-{lm}-{sample}.cfg")
        with open(path, "w") as f:
            f.write(open(os.path.join(common.TLA, "cfg", "HilbertSound.cfg")).read() + f"CONSTANTS LM = {lm}  Sample = {sample}\n")
        return path
    if tier == "thorough":
        with open(os.path.join(wd, "none.json"), "w") as f:
            json.dump({"keys": [], "lists": []}, f)
        res4 = common.run_tlc("HilbertSound", hs_cfg(4, 4000), env={"HCASES": os.path.join(wd, "none.json"), "HOUT": os.path.join(wd, "none-out.json")}, workers=16, timeout=3000, seed=seed + 1)
        rep.tlc(res4, "HilbertSound LM=4: 4000 random boxes x 4681 leaves")
    res = common.run_tlc("HilbertSound", hs_cfg(3, 0), env={"HCASES": os.path.join(wd, "cases.json"), "HOUT": os.path.join(wd, "answers.json")},
                         workers=16, timeout=3000)
    rep.tlc(res, "HilbertSound LM=3: all 46656 boxes x 585 leaves; lemmas StatePermutes, Bijective(3), Prefix(3), Continuous(2)")
    ans = json.load(open(os.path.join(wd, "answers.json")))
    witnesses = [r for r in res.json_lines() if "fkey" in r]
    rep.part("model", boxes=res.distinct, witnesses_of_unsound_case=len(witnesses))
    if not witnesses:
        raise MachineryError("HilbertSound produced no witness of the coarser-leaf case: the model is vacuous")
    # ---- 2a. the curve
    nk = 0
    hfun = getattr(oh, "_hilbert3d", None)
    try:
        if hfun is not None:
            int(hfun(1, 0, 1, 2))
    except TypeError:
        hfun = None
    if hfun is None:
        rep.part("key", compared=False, reason="osyris.io.hilbert._hilbert3d(x, y, z, bit_length) is not available; the end-to-end loads below decide")
    for (x, y, z, b), want in zip(keys if hfun is not None else [], ans["keys"]):
        try:
            got = int(hfun(x, y, z, b)) if b > 0 else 0
        except Exception as e:
            got = f"{type(e).__name__}: {e}"
        nk += 1
        rep.case(klass=("key", b, x % 4, y % 4, z % 4))
        if got != want:
            rep.mismatch({"module": "hilbert", "field": "key"}, f"_hilbert3d({x},{y},{z},{b}) = {got}, Hilbert!Key = {want}", case={"kind": "key", "args": [x, y, z, b]}, module="hilbert")
        else:
            rep.validated()
    # ---- 2a'. deep key spaces (beyond TLC's integers): the Python transcription of Hilbert!Key - which the keys above have just
    # tied to TLC's values - is the oracle for 10 to 22 bits per axis (keys up to 2^66)
    from .hilbert_py import key as pykey
    if hfun is not None and all(pykey(x, y, z, b) == w_ for (x, y, z, b), w_ in zip(keys, ans["keys"]) if b > 0):
        nd = 0
        for bits in (10, 16, 20, 21, 22):
            for _ in range(40 if tier == "quick" else 400):
                x, y, z = (rng.randrange(2 ** bits) for _ in range(3))
                rep.case(klass=("key-deep", bits, nd % 40))
                nd += 1
                try:
                    got = int(hfun(x, y, z, bits))
                except Exception as e:
                    got = f"{type(e).__name__}: {e}"
                want = pykey(x, y, z, bits)
                if got != want:
                    rep.mismatch({"module": "hilbert", "field": "key-deep"}, f"_hilbert3d({x},{y},{z},{bits}) = {got}, Hilbert!Key (Python transcription) = {want}", case={"kind": "key", "args": [x, y, z, bits]}, module="hilbert")
                else:
                    rep.validated()
    # ---- 2b. the list: must contain MustHave; equality with the transcription is recorded only
    neq = 0
    lfun = getattr(oh, "_get_cpu_list", None)
    if lfun is not None:
        import inspect
        try:
            inspect.signature(lfun).bind(bounding_box={}, lmax=1, levelmax=1, infofile="", ncpu=1, ndim=3)
        except TypeError:
            lfun = None
    if lfun is None:
        rep.part("list", compared=False, reason="osyris.io.hilbert._get_cpu_list(bounding_box, lmax, levelmax, infofile, ncpu, ndim) is not available; the end-to-end loads below decide")
    for c, a in zip(lists if lfun is not None else [], ans["lists"]):
        info = os.path.join(wd, "info.txt")
        with open(info, "w") as f:
            f.write("ordering type=hilbert\n   DOMAIN   ind_min                 ind_max\n")
            for i in range(len(c["bk"]) - 1):
                f.write(f"{i + 1:8d}   {float(c['bk'][i]):.15E}  {float(c['bk'][i + 1]):.15E}\n")
        N = 2 ** c["levelmax"]
        bb = {}
        for d, ax in enumerate("xyz"):
            bb[ax + "min"] = np.float64(c["box"][d][0] / N)
            bb[ax + "max"] = np.float64((c["box"][d][1] + 1) / N)
        rep.case(klass=("cpulist", c["levelmax"], c["lmax"], len(c["bk"]), a["slevel"]))
        try:
            got = sorted(int(g) for g in lfun(bounding_box=bb, lmax=c["lmax"], levelmax=c["levelmax"], infofile=info, ncpu=len(c["bk"]) - 1, ndim=3))
        except Exception as e:
            rep.mismatch({"module": "hilbert", "field": "cpu-list"}, f"box {c['box']} levelmax {c['levelmax']} lmax {c['lmax']} bound keys {c['bk']}: _get_cpu_list raised {type(e).__name__}: {e}",
                         case={"kind": "list", "case": c}, module="hilbert")
            continue
        missing = sorted(set(a["must"]) - set(got))
        if missing:
            rep.mismatch({"module": "hilbert", "field": "cpu-list"}, f"box {c['box']} levelmax {c['levelmax']} lmax {c['lmax']} bound keys {c['bk']}: cpus {missing} hold key blocks of the search cubes but are not in the list {got}",
                         case={"kind": "list", "case": c}, module="hilbert")
        else:
            rep.validated()
            if got != sorted(a["code"]):
                neq += 1
    rep.part("list", cases=len(lists), differs_from_transcription=neq, keys=nk)
    rep.sample({"box_in_finest_cells": lists[0]["box"], "bound_keys": lists[0]["bk"], "must_contain": ans["lists"][0]["must"]}, limit=2)
    # ---- 3. end-to-end
    ws = rng.sample(witnesses, min(len(witnesses), 25 if tier == "quick" else 200))
    wcfgs = [witness_cfg(rng, w) for w in ws]
    wl = loader.tlc_layouts(rep, wcfgs, "c04-witness")
    loader.run_batch(rep, wcfgs, wl, {"position"}, "witness-loads")
    loader.run_c04_loads(rep, tier, seed)
    rep.sample({"witness_of_unsound_case": ws[0], "meaning": "leaf coarser than the search cubes whose oct is owned by a cpu outside the key blocks"}, limit=6)
    loader.finish_rule(rep, "HilbertSound.tla: TLC enumerates every selection box (46 656 at levelmax 3) against every leaf position/level and checks that the owner key of each possibly qualifying leaf lies in a search-cube key block; curve lemmas; _hilbert3d/_get_cpu_list replayed against Key/MustHave on adversarial bound keys; selective loads of materialised outputs compared with the filtered full load")


def replay(rep, rec):
    if rec.get("module") == "loader":
        return loader.replay(rep, rec)
    print("replay of hilbert unit cases: re-run ./check C04 (cases are regenerated from the seed)")
