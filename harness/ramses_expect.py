"""What a load() must return, in physical (CGS) terms, assembled from the abstract rows TLC computed
(tokens and lattice coordinates) and the independent code-unit table; and the comparison with a real Dataset."""
import math

from . import common
from .units_map import cgs_of_sparse, dim_of_sparse, sparse_of_pint

ASTRO = {"au", "pc", "yr", "M_sun", "M_earth", "M_jup", "R_sun", "R_earth", "R_jup", "L_sun", "L_bol0", "ar"}

# ---- code-unit classes: (exponents of unit_d, unit_l, unit_t, sqrt(4 pi unit_d) tag, dimension (L,M,T,K,G))
CLS = {
    "density": (1, 0, 0, 0, (-3, 1, 0, 0, 0)),
    "velocity": (0, 1, -1, 0, (1, 0, -1, 0, 0)),
    "momentum": (1, 1, -1, 0, (-2, 1, -1, 0, 0)),
    "magnetic": (0, 1, -1, 1, (0, 0, 0, 0, 1)),
    "acceleration": (0, 1, -2, 0, (1, 0, -2, 0, 0)),
    "potential": (0, 2, -2, 0, (2, 0, -2, 0, 0)),
    "energy": (1, 2, -2, 0, (-1, 1, -2, 0, 0)),
    "time": (0, 0, 1, 0, (0, 0, 1, 0, 0)),
    "length": (0, 1, 0, 0, (1, 0, 0, 0, 0)),
    "mass": (1, 3, 0, 0, (0, 1, 0, 0, 0)),
    "temperature": (0, 0, 0, 0, (0, 0, 0, 1, 0)),
    "none": (0, 0, 0, 0, (0, 0, 0, 0, 0)),
}
EXACT = {"density": "density", "velocity": "velocity", "momentum": "momentum", "magnetic_field": "magnetic", "B_left": "magnetic",
         "B_right": "magnetic", "B_field": "magnetic", "acceleration": "acceleration", "grav_acceleration": "acceleration",
         "grav_potential": "potential", "energy": "energy", "internal_energy": "energy", "thermal_pressure": "energy", "pressure": "energy",
         "radiative_energy": "energy", "time": "time", "length": "length", "x": "length", "y": "length", "z": "length", "position": "length",
         "dx": "length", "mass": "mass", "temperature": "temperature"}
PREFIX = [("velocity_", "velocity"), ("momentum_", "momentum"), ("B_left_", "magnetic"), ("B_right_", "magnetic"), ("B_field_", "magnetic"),
          ("grav_acceleration_", "acceleration"), ("radiative_energy_", "energy"), ("position_", "length")]


def var_class(name):
    """the code-unit class a variable name belongs to (exact name, a wildcard family `family_<anything>`, or the
    infix families B_<c>_left / B_<c>_right); everything else is dimensionless"""
    if name in EXACT:
        return EXACT[name]
    for p, c in PREFIX:
        if name.startswith(p) and len(name) > len(p):
            return c
    if name.startswith("B_") and (name.endswith("_left") or name.endswith("_right")) and len(name) > len("B__left"):
        return "magnetic"
    return "none"


def factor(cls, units):
    ud, ul, ut = units
    ed, el, et, mag, dim = CLS[cls]
    f = (ud ** ed) * (ul ** el) * (ut ** et)
    if mag:
        f *= math.sqrt(4.0 * math.pi * ud)
    return f, dim


def merge_names(names, ndim):
    """vector assembly: a variable whose name contains the letter x at a position where replacing it by y (and z)
    gives other present variables is the x component of a vector named by dropping that letter and a preceding
    underscore; returns ordered {key: [component column names] or [name]}"""
    comps = "xyz"[:ndim]
    out = {}
    used = set()
    merged = {}
    if ndim > 1:
        for key in names:
            for i, ch in enumerate(key):
                if ch != "x":
                    continue
                cl = [key[:i] + c + key[i + 1:] for c in comps]
                if all(n in names for n in cl):
                    cut = i - 1 if i > 0 and key[i - 1] == "_" else i
                    raw = key[:cut] + key[i + 1:]
                    merged[raw or "position"] = cl
                    used.update(cl)
    for n in names:
        if n not in used:
            out[n] = [n]
    out.update(merged)
    return out


def mesh_columns(cfg, rows, S):
    """scalar columns (CGS values) of the unselected variable set for the abstract rows"""
    ud, ul, ut = cfg["units"]
    bl = cfg["boxlen"]
    cols, dims = {}, {}
    cols["level"] = [r["l"] for r in rows]
    cols["cpu"] = [r["c"] for r in rows]
    dims["level"] = dims["cpu"] = (0, 0, 0, 0, 0)
    cols["dx"] = [bl * ul * 0.5 ** r["l"] for r in rows]
    dims["dx"] = (1, 0, 0, 0, 0)
    for d in range(cfg["ndim"]):
        n = "position_" + "xyz"[d]
        cols[n] = [r["p"][d] / S * bl * ul for r in rows]
        dims[n] = (1, 0, 0, 0, 0)
    gnames = ["grav_potential"] + ["grav_acceleration_" + c for c in "xyz"[:cfg["ndim"]]] if cfg["grav"] else []
    for names, field in ((cfg["hydro"], "h"), (gnames, "g"), (cfg["rt"], "r")):
        for v, n in enumerate(names):
            f, dim = factor(var_class(n), cfg["units"])
            cols[n] = [r[field][v] * f for r in rows]
            dims[n] = dim
    return cols, dims


def part_columns(cfg, prows):
    cols, dims = {}, {}
    for v, (n, t) in enumerate(cfg["part"]["desc"]):
        f, dim = factor(var_class(n), cfg["units"])
        cols[n] = [r["v"][v] * f for r in prows]
        dims[n] = dim
    return cols, dims


def project(cols, dims, keep):
    names = [n for n in cols if keep is None or n in keep]
    return {n: cols[n] for n in names}, {n: dims[n] for n in names}


def observed_group(group):
    """real Datagroup -> ({key: [component names]}, {scalar column: values in CGS}, {scalar column: dimension}, problems)"""
    import numpy as np
    struct, cols, dims, problems = {}, {}, {}, []
    for key in group.keys():
        item = group[key]
        if key != item.name:
            problems.append(f"member {key} is named {item.name!r}")
        sp = sparse_of_pint(item.unit)
        if any(n.startswith("?") for n, _ in sp):
            problems.append(f"member {key} has unit {item.unit} outside the catalogue")
            continue
        f = float(cgs_of_sparse(sp))
        if any(n in ASTRO for n, _ in sp):
            # derived variables are expressed in osyris' own astrophysical units (cell mass in M_sun): their numeric
            # definition is the subject of C08, here the library's own value is used
            f = float((1.0 * item.unit).to_base_units().magnitude)
        dim = dim_of_sparse(sp)
        if common.is_vector(item):
            names = []
            for c, arr in common.comps_of(item).items():
                n = f"{key}:{c}"
                names.append(n)
                cols[n] = (np.asarray(arr.values, dtype=float) * f).tolist()
                dims[n] = dim
            struct[key] = names
        else:
            struct[key] = [key]
            cols[key] = (np.atleast_1d(np.asarray(item.values, dtype=float)) * f).tolist()
            dims[key] = dim
    return struct, cols, dims, problems


def compare_group(exp_struct, exp_cols, exp_dims, group, ordered=False, rtol=1e-11):
    """exp_struct: {key: [expected scalar column names]} ; returns first difference or None"""
    struct, cols, dims, problems = observed_group(group)
    if problems:
        return problems[0]
    if set(struct) != set(exp_struct):
        return f"keys: expected {sorted(exp_struct)} got {sorted(struct)}"
    pairs = []
    for key, enames in exp_struct.items():
        onames = struct[key]
        if len(onames) != len(enames):
            return f"{key}: expected {'a vector of ' + str(len(enames)) if len(enames) > 1 else 'a scalar'} got {len(onames)} component(s)"
        if (len(enames) > 1) != (":" in onames[0]):
            return f"{key}: vector/scalar kind differs"
        for e, o in zip(enames, onames):
            if tuple(exp_dims[e]) != tuple(dims[o]):
                return f"{key}: unit dimension expected {exp_dims[e]} got {dims[o]}"
            pairs.append((e, o))
    n_exp = len(next(iter(exp_cols.values()))) if exp_cols else 0
    for e, o in pairs:
        if len(cols[o]) != n_exp:
            return f"{e}: expected {n_exp} rows got {len(cols[o])}"
    erows = [tuple(exp_cols[e][k] for e, _ in pairs) for k in range(n_exp)]
    orows = [tuple(cols[o][k] for _, o in pairs) for k in range(n_exp)]
    if not ordered:
        scale = [max([abs(r[j]) for r in erows] + [1e-300]) for j in range(len(pairs))]

        def key(r):
            return tuple(round(r[j] / scale[j], 9) for j in range(len(r)))
        erows.sort(key=key)
        orows.sort(key=key)
    for k, (er, orow) in enumerate(zip(erows, orows)):
        for j, (a, b) in enumerate(zip(er, orow)):
            if a != b and not abs(a - b) <= rtol * max(abs(a), abs(b)):
                return f"row {k} variable {pairs[j][0]}: expected {a!r} got {b!r}" + ("" if ordered else " (rows compared as sorted multisets of complete rows)")
    return None
