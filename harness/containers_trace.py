"""C -> S for Containers: random programs over the public API of Array/Vector/Datagroup/Dataset are executed on
real objects, every call is logged at its return (also when it raises) with the complete projected state, and
TLC must accept each trace as a behaviour of tla/Containers.tla (tla/TraceContainers.tla)."""
import json
import os
import random
from fractions import Fraction as F

from . import common
from .common import MachineryError

MAXOBJ, MAXGRP = 40, 10
KEYS = ["a", "b", "c"]
IDX = ["i0", "im1", "imn", "iout", "s02", "s_2", "srev", "s1_", "mask", "maskArr", "maskBad", "maskNone", "ia", "iaArr", "perm", "faArr", "vecIdx"]


def rnorm(fr):
    """Fraction -> canonical <<num, den, e>> of tla/Rational.tla"""
    if fr == 0:
        return [0, 1, 0]
    n, d, e = fr.numerator, fr.denominator, 0
    while d % 2 == 0:
        n, d, e = n * 5, d // 2, e - 1
    while d % 5 == 0:
        n, d, e = n * 2, d // 5, e - 1
    while n % 10 == 0:
        n, e = n // 10, e + 1
    return [n, d, e]


class Inexact(Exception):
    pass


def to_rat(x, tol=12):
    if isinstance(x, bool):
        return [int(x), 1, 0]
    if isinstance(x, int):
        fr = F(x)
    else:
        if x != x or x in (float("inf"), float("-inf")):
            raise Inexact()
        fr = F(x).limit_denominator(10 ** 6)
        # relative to the value itself: a tiny quotient (1/4410000) must not be "recovered" as 0
        if abs(fr - F(x)) > F(1, 10 ** tol) * abs(F(x)):
            raise Inexact()
    r = rnorm(fr)
    if abs(r[0]) >= 2 ** 30 or r[1] >= 2 ** 30 or abs(r[2]) > 12:
        raise Inexact()
    return r


def view_of(world):
    p = world.project()
    # the rational is recovered within the precision of the stored type; a value whose exact rational has a
    # denominator beyond the recovery bound is *not* replaced by a nearby smaller fraction (Inexact ends the trace)
    objs = [{"k": o["k"], "v": [[to_rat(x, 6 if o["dt"] == "f4" else 11) for x in comp] for comp in o["v"]], "s": o["s"], "u": o["u"], "n": o["n"], "dt": o["dt"]}
            for o in p["objs"]]
    n = len(objs)
    share = [[i + 1, j + 1] for i in range(n) for j in range(i + 1, n) if p["share"][i][j]]
    res = dict(p["res"])
    if res["t"] == "dg":
        res = {"t": "dg", "keys": res["keys"],
               "mem": [{"kind": m["kind"], "scalar": m["scalar"], "unit": m["unit"], "name": m["name"], "dt": m["dt"],
                        "c": [[to_rat(x, 6 if m["dt"] == "f4" else 11) for x in comp] for comp in m["c"]], "shares": m["shares"]} for m in (res["mem"][k] for k in res["keys"])]}
    elif res["t"] == "exc":
        res = {"t": "exc", "e": "KeyError" if res["e"] == "KeyError" else "Error"}
    return {"state": {"objs": objs, "share": share, "dgs": p["dgs"], "dss": p["dss"]}, "res": res}


def _numeric(x, digits=6, inval=False):
    """a logged/expected state with every <<num, den, e>> under a value field ("v", "c") replaced by its value
    rounded to `digits` significant digits: used only to tell a rejection caused by the rational recovery (same
    numbers, different fractions) from a genuine one"""
    if isinstance(x, dict):
        return {k: _numeric(v, digits, inval or k in ("v", "c")) for k, v in x.items()}
    if isinstance(x, list):
        if inval and len(x) == 3 and all(isinstance(t, int) and not isinstance(t, bool) for t in x) and x[1] > 0:
            return float("%.*g" % (digits, x[0] / x[1] * 10.0 ** x[2]))
        return [_numeric(v, digits, inval) for v in x]
    return x


def choose_action(rng, w, focus, budget):
    """a random action whose arguments exist in the current world; the specification's domain restrictions
    (what C06/C17/C20 leave unspecified) are respected here so that a rejected trace means a real disagreement"""
    O, G, D = w.objs, w.groups, w.dsets
    V = w.osyris.Vector
    ops = {"dict": ["set", "set", "del", "pop", "get", "clear", "update", "copy", "eq", "eq", "dsset", "dsset", "dssetbad", "dsupdatebad", "dsdel", "dspop", "dsget",
                    "dsmeta", "dsclear", "dsupdate", "dscopy", "dsdeepcopy", "deepcopy"],
           "rows": ["vset", "set", "set", "set", "del", "pop", "update", "index", "index", "index", "sortkey", "sortkey", "sortidx", "clear", "slice", "copy", "get"],
           "alias": ["set", "set", "copy", "deepcopy", "slice", "slice", "ocopy", "to", "to", "vset", "iop", "iop", "iop", "iop", "dsset", "dscopy", "index", "sortidx", "get"]}[focus]
    for _ in range(50):
        op = rng.choice(ops)
        g = rng.randrange(len(G)) + 1
        grp = G[g - 1]
        if op == "set":
            return {"op": "set", "g": g, "k": rng.choice(KEYS), "o": rng.randrange(len(O)) + 1}
        if op in ("del", "pop", "get"):
            return {"op": "popd" if op == "pop" and rng.random() < 0.4 else op, "g": g, "k": rng.choice(KEYS)}
        if op == "clear":
            return {"op": "clear", "g": g}
        if op == "update":
            ks = rng.sample(KEYS, rng.choice([1, 2]))
            return {"op": "update", "g": g, "pairs": [[k, rng.randrange(len(O)) + 1] for k in ks]}
        if op == "copy" and len(G) < MAXGRP:
            return {"op": "copy", "g": g}
        if op == "deepcopy" and len(G) < MAXGRP and len(O) + len(grp) <= MAXOBJ and getattr(grp, "parent", None) is None:
            return {"op": "deepcopy", "g": g}
        if op == "index":
            return {"op": "index", "g": g, "kind": rng.choice(IDX)}
        if op == "slice" and len(O) < MAXOBJ:
            return {"op": "slice", "o": rng.randrange(len(O)) + 1, "kind": rng.choice([k for k in IDX if k not in ("maskArr", "iaArr")])}
        if op == "to" and len(O) < MAXOBJ:
            o = rng.randrange(len(O)) + 1
            if str(O[o - 1].dtype) == "float32":
                continue
            return {"op": "to", "o": o, "u": rng.randrange(3) + 1}
        if op == "vset":
            vs = [i + 1 for i, x in enumerate(O) if isinstance(x, V) and x.shape]
            if not vs:
                continue
            o = rng.choice(vs)
            v = O[o - 1]
            srcs = [i + 1 for i, x in enumerate(O) if not isinstance(x, V) and x.shape == v.shape and str(x.unit) == str(v.unit) and x.dtype == v.dtype]
            if not srcs:
                continue
            return {"op": "vset", "o": o, "c": rng.randrange(min(3, v.nvec + 1)) + 1, "src": rng.choice(srcs)}
        if op == "ocopy" and len(O) < MAXOBJ:
            return {"op": "ocopy", "o": rng.randrange(len(O)) + 1, "how": rng.choice(["copy", "deepcopy"])}
        if op == "sortkey" and len(grp) and grp.shape != () and len(O) + len(grp) <= MAXOBJ:
            ks = [k for k in grp.keys() if not isinstance(grp[k], V) and grp[k].shape != () and len(set(_flat(grp[k]))) == len(grp[k])]
            if ks:
                return {"op": "sortkey", "g": g, "k": rng.choice(ks)}
        if op == "sortidx" and len(grp) and grp.shape != () and len(O) + len(grp) <= MAXOBJ:
            n = grp.shape[0]
            if n:
                p = [rng.randrange(n) + 1 for _ in range(n)] if rng.random() < 0.3 else rng.sample(range(1, n + 1), n)
                return {"op": "sortidx", "g": g, "p": p}
        if op == "iop" and len(O) < MAXOBJ:
            o = rng.randrange(len(O)) + 1
            rhs = rng.choice([0] + list(range(1, len(O) + 1)))
            if isinstance(O[o - 1], V) and rng.random() < 0.15:
                rhs = -(rng.randrange(O[o - 1].nvec) + 1)          # one of x's own components
            f = rng.choice(["add", "sub", "mul", "div"])
            if f in ("mul", "div"):
                if budget["muldiv"] <= 0:
                    continue
            x = O[o - 1]
            y = O[rhs - 1] if rhs > 0 else (getattr(x, "xyz"[-rhs - 1]) if rhs < 0 else None)
            if str(x.dtype) == "float32" or (y is not None and str(y.dtype) == "float32"):
                continue                      # float32 rounding cannot be recovered as exact rationals for the trace; covered by the S->C replay
            if not isinstance(x, V) and isinstance(y, V):
                continue                      # Array op= Vector falls back to Vector.__r*__: not covered by C17
            if x.dtype.kind != "f":
                if f == "div" or (y is not None and y.dtype.kind != "i"):
                    continue                  # result not representable in x's dtype
                if y is not None and str(y.unit) != str(x.unit) and _compatible(x, y):
                    continue
            if f == "div":
                vals = [2.0] if y is None else [v for c in _comps(y, V) for v in _flat(c)]
                if any(v == 0 for v in vals):
                    continue
            if f in ("mul", "div"):
                budget["muldiv"] -= 1
            return {"op": "iop", "f": f, "o": o, "rhs": rhs, "q": bool(rhs > 0 and not isinstance(y, V) and rng.random() < 0.3)}
        if op == "eq":
            return {"op": "eq", "g": g, "h": rng.randrange(len(G)) + 1}
        d = rng.randrange(len(D)) + 1
        if op == "dsset":
            return {"op": "dsset", "d": d, "k": rng.choice(KEYS), "g": g}
        if op == "dssetbad":
            return {"op": "dssetbad", "d": d, "k": rng.choice(KEYS), "o": rng.randrange(len(O)) + 1}
        if op == "dsupdatebad":
            return {"op": "dsupdatebad", "d": d, "k": rng.choice(KEYS), "o": rng.randrange(len(O)) + 1}
        if op in ("dsdel", "dspop", "dsget"):
            return {"op": "dspopd" if op == "dspop" and rng.random() < 0.4 else op, "d": d, "k": rng.choice(KEYS)}
        if op == "dsmeta":
            return {"op": "dsmeta", "d": d, "mk": rng.choice(["t", "n"])}
        if op == "dsclear":
            return {"op": "dsclear", "d": d}
        if op == "dsupdate":
            return {"op": "dsupdate", "d": d, "pairs": [["a", rng.randrange(len(G)) + 1], ["b", rng.randrange(len(G)) + 1]]}
        if op == "dscopy" and len(D) < 3:
            return {"op": "dscopy", "d": d}
        if op == "dsdeepcopy" and len(D) < 3:
            ds = D[d - 1]
            ng = len({id(x) for x in ds.values()})
            no = len({id(m) for x in ds.values() for m in x.values()})
            if len(G) + ng <= MAXGRP and len(O) + no <= MAXOBJ:
                return {"op": "dsdeepcopy", "d": d}
    return {"op": "get", "g": 1, "k": "a"}


def _comps(o, V):
    return [c for c in (o.x, o.y, o.z) if c is not None] if isinstance(o, V) else [o]


def _flat(c):
    import numpy as np
    return np.atleast_1d(c._array).ravel().tolist()


def _compatible(x, y):
    return x.unit.dimensionality == y.unit.dimensionality


def record_traces(n, length, seed, focus):
    from .containers_world import World
    traces = []
    for t in range(n):
        rng = random.Random(seed * 100003 + t)
        w = World()
        budget = {"muldiv": 3}
        tr = []
        for _ in range(length):
            try:
                a = choose_action(rng, w, focus, budget)
            except Exception:       # the world is in a state the specification never reaches (already reported by the previous event)
                break
            try:
                w.apply(a)
                post = view_of(w)
            except Inexact:
                break
            except Exception as e:      # a state the projection cannot express: logged as such, the specification will reject it
                tr.append({"a": a, "post": {"state": {"objs": [], "share": [], "dgs": [], "dss": []}, "res": {"t": "unprojectable", "e": type(e).__name__}}})
                break
            tr.append({"a": a, "post": post})
        if tr:
            traces.append(tr)
    return traces


def validate(rep, traces, label, expect_reject=None):
    """returns list of (trace index, matched, length, reject info or None)"""
    os.makedirs(os.path.join(common.WORK, "traces"), exist_ok=True)
    path = os.path.join(common.WORK, "traces", label + ".json")
    with open(path, "w") as f:
        json.dump(traces, f)
    cfgp = os.path.join(common.WORK, "cfg")
    os.makedirs(cfgp, exist_ok=True)
    cfg = os.path.join(cfgp, label + ".cfg")
    from .containers import ALL_ACTS, INVARIANTS
    with open(cfg, "w") as f:
        f.write("INIT TInit\nNEXT TNext\nCONSTANTS MaxObj = %d  MaxGrp = %d  Depth = 100000\n Keys = {\"a\",\"b\",\"c\"}\n Acts = {%s}\n IdxUse = {}\n OpsUse = {}\n ObjUse = {}\n GrpUse = {}\n TiesPool = FALSE\n"
                % (MAXOBJ, MAXGRP, ",".join('"%s"' % a for a in ALL_ACTS)))
        f.write("CONSTRAINT Mark\nPOSTCONDITION Post\nCHECK_DEADLOCK FALSE\n" + "".join(f"INVARIANT {i}\n" for i in INVARIANTS if i != "OneRowSelection"))
    res = common.run_tlc("TraceContainers", cfg, env={"TRACE_FILE": path}, workers=1, timeout=1500)
    rep.tlc(res, label)
    verdicts = {}
    for t in res.tuples("TRACE"):
        verdicts[t[1]] = (t[2], t[3])
    if len(verdicts) != len(traces):
        raise MachineryError(f"trace validation returned {len(verdicts)} verdicts for {len(traces)} traces\n" + res.out[-2000:])
    rejects = {}
    for obj in res.json_lines():
        if "want" in obj:
            rejects.setdefault(obj["tid"], {})[obj["l"]] = obj
    out = []
    for i in range(1, len(traces) + 1):
        m, ln = verdicts[i]
        info = None
        if m < ln:
            info = rejects.get(i, {}).get(m + 1)
        out.append((i, m, ln, info))
    return out


def run(rep, tier, seed, focus):
    n, length = (120, 25) if tier == "quick" else (1500, 40)
    traces = record_traces(n, length, seed, focus)
    out = validate(rep, traces, f"trace-{focus}")
    accepted = truncated = 0
    for i, m, ln, info in out:
        tr = traces[i - 1]
        rep.case(klass=("trace", focus, tuple(e["a"]["op"] for e in tr[:m])[:6]))
        if m == ln:
            accepted += 1
            rep.validated()
            continue
        ev = tr[m]
        if info is None:
            truncated += 1          # the action is outside the specification's domain (driver issue), no verdict
            continue
        from .common import diff
        if (diff(info["want"], ev["post"]["state"]) and not diff(_numeric(info["want"]), _numeric(ev["post"]["state"]))
                and _numeric(info["res"]) == _numeric(ev["post"]["res"])):
            # the same numbers written as different fractions: the recovery of rationals from floats reached its
            # limit (a denominator beyond 10^6); no verdict on the rest of the trace
            truncated += 1
            continue
        d = diff(info["want"], ev["post"]["state"]) or f"result: spec {info['res']} != impl {ev['post']['res']}"
        a = ev["a"]
        sig = {"module": "Containers", "op": a["op"], "field": d.split(":")[0].split("[")[0].split(".")[-1], "focus": "trace"}
        if a["op"] == "iop":
            sig["f"] = a["f"]
        if a["op"] in ("index", "slice"):
            sig["kind"] = a["kind"]
        rep.mismatch(sig, f"recorded execution rejected by the specification at event {m + 1} {json.dumps(a)} after {json.dumps([e['a'] for e in tr[:m]])}: {d}",
                     case={"trace": [e["a"] for e in tr[:m + 1]]}, module="containers_trace")
    if traces:
        rep.sample({"recorded_trace_actions": [e["a"] for e in traces[0][:8]], "verdict": "accepted" if out[0][1] == out[0][2] else "rejected"}, limit=6)
    rep.part(f"trace-{focus}", traces=len(traces), accepted=accepted, out_of_domain_truncated=truncated,
             events=sum(len(t) for t in traces))
    if truncated > 0.15 * len(traces):
        raise MachineryError(f"{truncated} of {len(traces)} recorded traces left the specification's domain: the driver is broken")
    # negative control: corrupt one logged value / one logged key order and require rejection
    ctl = []
    rng = random.Random(seed + 7)
    good = [traces[i - 1] for i, m, ln, info in out if m == ln and ln >= 3]
    for tr in good[:6]:
        c = json.loads(json.dumps(tr))
        k = rng.randrange(len(c))
        st = c[k]["post"]["state"]
        if rng.random() < 0.5 and st["objs"][0]["v"][0]:
            st["objs"][rng.randrange(len(st["objs"]))]["n"] += "x"
        else:
            o = st["objs"][rng.randrange(len(st["objs"]))]
            o["v"][0] = [[7, 1, 3]] + o["v"][0][1:] if o["v"][0] else o["v"][0]
            o["dt"] = "i8" if o["dt"] == "f8" else "f8"
        ctl.append(c)
    if ctl:
        r2 = common.Report(rep.pid, rep.tier, rep.seed)
        out2 = validate(r2, ctl, f"trace-{focus}-control")
        bad = [i for i, m, ln, info in out2 if m == ln]
        rep.part(f"trace-{focus}", negative_controls=len(ctl), negative_controls_rejected=len(ctl) - len(bad))
        if bad:
            raise MachineryError("negative control: a corrupted trace was accepted by the trace specification")
