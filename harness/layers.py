"""C19: histories of plotting calls from tla/LayerOptions.tla replayed on real Layers.
After every call: the effective option of each layer (observed through Plot.layers[k]['mode'|'params'] and through the data)
must come from the level the specification names, every argument must be untouched, and repeating the call must return
the same data.  histogram1d (bins / weights / keyword options), scatter and plot are replayed in the same way."""
import contextlib
import copy
import io
import json
import os
import random

from . import common
from .common import MachineryError

LVAL = {"mode": "contourf", "norm": "log", "vmin": 0.0, "vmax": 5.0, "operation": "mean", "extra": "magma"}     # vmin = 0: a set value that is falsy
CVAL = {"mode": "contour", "norm": "symlog", "vmin": 2.0, "vmax": 7.0, "operation": "max", "extra": "plasma"}
NORMCLS = {"log": "LogNorm", "symlog": "SymLogNorm", None: "Normalize"}


def kwargs_of(optset, vals, fn):
    kw = {}
    for o in optset:
        if o == "extra":
            kw["cmap"] = vals[o]
        elif o == "operation" and fn == "histogram2d":
            kw["operation"] = "sum" if vals is LVAL else "mean"     # histogram2d knows sum and mean only (default sum)
        else:
            kw[o] = vals[o]
    return kw


def snap_array(a):
    import numpy as np
    comps = list(common.comps_of(a).values())
    return [(c._array.copy(), str(c.unit), c.name) for c in comps] + [a.name]


def same_array_snap(x, y):
    import numpy as np
    if x[-1] != y[-1] or len(x) != len(y):
        return False
    return all(np.array_equal(p[0], q[0]) and p[1:] == q[1:] for p, q in zip(x[:-1], y[:-1]))


def snap_layer(layer):
    return {"opts": (layer.mode, layer.operation, layer.norm, layer.vmin, layer.vmax, layer.bins, None if layer.weights is None else id(layer.weights)),
            "kwargs": dict(layer.kwargs), "kwargs_id": id(layer.kwargs), "keys": list(layer.arrays.keys()), "ids": [id(v) for v in layer.arrays.values()],
            "arrays": [snap_array(v) for v in layer.arrays.values()]}


def same_layer(a, b):
    return a["opts"] == b["opts"] and a["kwargs"] == b["kwargs"] and a["keys"] == b["keys"] and a["ids"] == b["ids"] and \
        all(same_array_snap(x, y) for x, y in zip(a["arrays"], b["arrays"]))


def mesh3():
    import numpy as np
    import osyris
    n = 4
    c = (np.arange(n) + 0.5) / n
    X, Y, Z = np.meshgrid(c, c, c, indexing="ij")
    dg = osyris.Datagroup()
    dg["position"] = osyris.Vector(X.ravel(), Y.ravel(), Z.ravel(), unit="cm")
    dg["dx"] = osyris.Array(np.full(n ** 3, 1.0 / n), unit="cm")
    dg["density"] = osyris.Array(1.0 + 8.0 * Z.ravel() + X.ravel(), unit="g/cm**3")          # varies along the line of sight
    dg["pressure"] = osyris.Array(2.0 + 4.0 * Z.ravel() ** 2 + Y.ravel(), unit="erg/cm**3")
    return dg


def effective_operation_map(data, dg, key, dz, nz):
    """which reduction along z produced this thick map (data varies along z so that they all differ)"""
    import numpy as np
    n = 4
    vals = dg[key].values.reshape(n, n, n)      # [ix, iy, iz]
    col = vals[0, 0, 1:3]                         # the slab of thickness 0.5 around z = 0.5 samples the two middle cells
    got = float(np.ma.getdata(data)[0, 0])
    cands = {"sum": col.sum() * dz / nz, "mean": col.mean(), "max": col.max()}
    for k, v in cands.items():
        if abs(got - v) <= 1e-9 * abs(v):
            return k
    return f"unknown({got})"


def run_history(rep, rec, idx, rng):
    import matplotlib
    import matplotlib.pyplot as plt
    import numpy as np
    import osyris
    U = osyris.units
    layer_set = rec["layer"] if isinstance(rec["layer"], list) else []
    dg = mesh3()
    x = osyris.Array(np.array([0.5, 0.5, 2.5, 3.5, 0.5, 1.5]), unit="m", name="x")        # points 0 and 1 share a bin: sum and mean differ
    y = osyris.Array(np.array([0.5, 0.5, 1.5, 1.5, 2.5, 3.5]), unit="s", name="y")
    w = osyris.Array(np.array([1.0, 2.0, 4.0, 8.0, 16.0, 32.0]), unit="K", name="w")
    w2 = osyris.Array(np.array([3.0, 3.0, 5.0, 5.0, 7.0, 9.0]), unit="g", name="w2")
    # the shared argument objects of the whole history
    L1m = dg.layer("density", **kwargs_of(layer_set, LVAL, "map"))
    L2m = dg.layer("pressure")
    L1h = osyris.core.layer.Layer(w, **kwargs_of(layer_set, LVAL, "histogram2d"))
    L2h = osyris.core.layer.Layer(w2)
    resolution = {"x": 4, "y": 4}
    origin = osyris.Vector(0.5, 0.5, 0.5, unit="cm")
    dxq, dzq = 10.0 * U("mm"), 5.0 * U("mm")            # the window in another length unit than the positions
    # orientation objects of the caller (unit length already), shared by the calls of the history
    dirv = osyris.Vector(0.0, 0.0, 1.0, name="mydir")
    dirb = osyris.VectorBasis(n=osyris.Vector(0.0, 0.0, 1.0, name="bn"), u=osyris.Vector(1.0, 0.0, 0.0, name="bu"), v=osyris.Vector(0.0, 1.0, 0.0, name="bv"))
    dirs = ["z", dirv, dirb]
    dir_snap = lambda: [snap_array(dirv), snap_array(dirb.n), snap_array(dirb.u), snap_array(dirb.v), dirv.x.name, dirb.n.x.name]
    args_snap = lambda: {"L": [snap_layer(l) for l in (L1m, L2m, L1h, L2h)], "res": dict(resolution), "origin": snap_array(origin),
                         "dg": {k: snap_array(v) for k, v in dg.items()}, "xyw": [snap_array(a) for a in (x, y, w, w2)], "q": (str(dxq), str(dzq)), "dirs": dir_snap()}
    before = args_snap()
    first = {}
    for step, call in enumerate(rec["hist"], 1):
        fn = call["fn"]
        cs = call["cs"] if isinstance(call["cs"], list) else []
        ckw = kwargs_of(cs, CVAL, fn)
        rep.case(klass=(fn, tuple(sorted(layer_set)), tuple(sorted(cs)), step))
        try:
            with contextlib.redirect_stdout(io.StringIO()):
                if fn == "map":
                    p = osyris.map(L1m, L2m, dx=dxq, dz=dzq, origin=origin, resolution=resolution, direction=dirs[(idx + step) % 3], plot=False, **ckw)
                else:
                    p = osyris.histogram2d(x, y, L1h, L2h, resolution=4, xmin=0.0, xmax=4.0, ymin=0.0, ymax=4.0, plot=False, **ckw)
        except Exception as e:
            rep.mismatch({"module": "LayerOptions", "fn": fn, "field": "raises"}, f"{fn} layer options {sorted(layer_set)} call options {sorted(cs)}: raised {type(e).__name__}: {e}",
                         case={"rec": rec, "step": step}, module="layers")
            return
        d = None
        after = args_snap()
        for nme in ("res", "q"):
            if before[nme] != after[nme]:
                d = f"arguments: {nme} changed from {before[nme]} to {after[nme]}"
        if d is None and not (all(same_array_snap(a, b) for a, b in zip(before["dirs"][:4], after["dirs"][:4])) and before["dirs"][4:] == after["dirs"][4:]):
            d = "arguments: the orientation Vector / VectorBasis given as direction was modified (values or names)"
        if d is None and not all(same_layer(a, b) for a, b in zip(before["L"], after["L"])):
            d = "arguments: a Layer object (options, keyword dict or arrays) was modified by the call"
        if d is None and not (same_array_snap(before["origin"], after["origin"]) and all(same_array_snap(before["dg"][k], after["dg"][k]) for k in before["dg"])
                              and all(same_array_snap(a, b) for a, b in zip(before["xyw"], after["xyw"]))):
            d = "arguments: an Array/Vector argument was modified by the call"
        if d is None:
            for li, eff in ((0, call["eff1"]), (1, call["eff2"])):
                lay = p.layers[li]
                src_val = lambda o, s: (LVAL if s == "L" else CVAL if s == "C" else {}).get(o)
                want_mode = src_val("mode", eff["mode"])
                if lay["mode"] != want_mode:
                    d = f"precedence: layer {li + 1} mode is {lay['mode']!r}, expected {want_mode!r} ({'layer' if eff['mode'] == 'L' else 'call' if eff['mode'] == 'C' else 'default'} level)"
                    break
                nrm = lay["params"]["norm"]
                want_norm = NORMCLS[src_val("norm", eff["norm"])]
                if type(nrm).__name__ != want_norm:
                    d = f"precedence: layer {li + 1} norm is {type(nrm).__name__}, expected {want_norm} ({eff['norm']})"
                    break
                for o in ("vmin", "vmax"):
                    if getattr(nrm, o) != src_val(o, eff[o]):
                        d = f"precedence: layer {li + 1} {o} is {getattr(nrm, o)!r}, expected {src_val(o, eff[o])!r} ({eff[o]})"
                        break
                if d:
                    break
                if lay["params"].get("cmap") != src_val("extra", eff["extra"]):
                    d = f"precedence: layer {li + 1} keyword option cmap is {lay['params'].get('cmap')!r}, expected {src_val('extra', eff['extra'])!r} ({eff['extra']})"
                    break
                if fn == "map" and dirs[(idx + step) % 3] is dirv:
                    pass          # a bare normal gives a rotated in-plane basis: the operation is observed in the axis-aligned calls only
                elif fn == "map":
                    want_op = src_val("operation", eff["operation"]) or "sum"
                    got_op = effective_operation_map(lay["data"], dg, "density" if li == 0 else "pressure", 0.5, 2)
                    if got_op != want_op:
                        d = f"precedence: layer {li + 1} was reduced with operation {got_op}, expected {want_op} ({eff['operation']})"
                        break
                else:
                    want_op = {"L": "sum", "C": "mean", "D": "sum"}[eff["operation"]]
                    wv = (w if li == 0 else w2).values
                    tot = float(np.ma.filled(lay["data"], 0.0).sum())
                    exp_sum = float(wv.sum())
                    exp_mean = exp_sum - 0.5 * float(wv[0] + wv[1])
                    got_op = "sum" if abs(tot - exp_sum) < 1e-9 else ("mean" if abs(tot - exp_mean) < 1e-9 else f"unknown({tot})")
                    if got_op != want_op:
                        d = f"precedence: layer {li + 1} operation looks like {got_op}, expected {want_op} ({eff['operation']})"
                        break
        key = (fn, tuple(sorted(cs)), (idx + step) % 3 if fn == "map" else 0)
        datas = [np.ma.filled(l["data"], -1.0).copy() for l in p.layers] + [np.asarray(p.x, dtype=float).copy(), np.asarray(p.y, dtype=float).copy()]
        if d is None and key in first:
            if not all(np.array_equal(a, b) for a, b in zip(first[key], datas)):
                d = "idempotence: the same call returned different data later in the history"
        first.setdefault(key, datas)
        if d:
            rep.mismatch({"module": "LayerOptions", "fn": fn, "field": d.split(":")[0]},
                         f"history {[(c['fn'], sorted(c['cs']) if isinstance(c['cs'], list) else []) for c in rec['hist'][:step]]} layer-level options {sorted(layer_set)}: {d}",
                         case={"rec": rec, "step": step}, module="layers")
            return
        rep.validated()
    plt.close("all")




def run_hist1d_scatter_plot(rep, tier, rng):
    """histogram1d: bins / weights / keyword options at neither, either or both levels; scatter and plot: purity and repeatability"""
    import matplotlib.pyplot as plt
    import numpy as np
    import osyris
    from osyris.core.layer import Layer
    vals = osyris.Array(np.array([0.0, 1.0, 1.0, 2.0, 3.0, 3.0, 3.0, 4.0]), unit="m", name="v")
    w1 = osyris.Array(np.full(8, 2.0), unit="g", name="w1")
    w2 = osyris.Array(np.full(8, 3.0), unit="g", name="w2")
    for lb in (False, True):
        for cb in (False, True):
            for lw in (False, True):
                for cw in (False, True):
                    for lk in (False, True):
                        for ck in (False, True):
                            lkw = {}
                            if lb:
                                lkw["bins"] = 2
                            if lw:
                                lkw["weights"] = w1
                            if lk:
                                lkw["cumulative"] = True
                            ckw = {}
                            if cb:
                                ckw["bins"] = 4
                            if cw:
                                ckw["weights"] = w2
                            if ck:
                                ckw["cumulative"] = -1
                            L = Layer(vals, **lkw)
                            plain = Layer(vals)
                            s0 = (snap_layer(L), snap_layer(plain))
                            rep.case(klass=("histogram1d", lb, cb, lw, cw, lk, ck))
                            try:
                                p1 = osyris.histogram1d(L, **ckw)
                                p2 = osyris.histogram1d(plain, **ckw)
                                p1b = osyris.histogram1d(L, **ckw)
                                p3 = osyris.histogram1d(L, plain, **ckw)        # two layers in one call: the data returned are the last layer's
                            except Exception as e:
                                rep.mismatch({"module": "LayerOptions", "fn": "histogram1d", "field": "raises"}, f"histogram1d layer {lkw.keys()} call {ckw.keys()}: {type(e).__name__}: {e}", case={}, module="layers")
                                continue
                            finally:
                                plt.close("all")
                            d = None
                            if not (same_layer(s0[0], snap_layer(L)) and same_layer(s0[1], snap_layer(plain))):
                                d = "arguments: a Layer was modified by histogram1d"
                            for p, (b, wt, cu) in ((p1, (2 if lb else 4 if cb else 50, 2.0 if lw else 3.0 if cw else 1.0, True if lk else -1 if ck else False)),
                                                   (p2, (4 if cb else 50, 3.0 if cw else 1.0, -1 if ck else False)),
                                                   (p3, (4 if cb else 50, 3.0 if cw else 1.0, -1 if ck else False))):
                                if d:
                                    break
                                if len(p.x) != b:
                                    d = f"precedence: {len(p.x)} bins, expected {b}"
                                else:
                                    tot = 8 * wt
                                    y = np.asarray(p.y)
                                    if cu is True and abs(y[-1] - tot) > 1e-9:
                                        d = f"precedence: cumulative histogram ends at {y[-1]}, expected {tot} (weights / cumulative option)"
                                    elif cu == -1 and abs(y[0] - tot) > 1e-9:
                                        d = f"precedence: reverse cumulative histogram starts at {y[0]}, expected {tot}"
                                    elif cu is False and (abs(y.sum() - tot) > 1e-9 or (b > 1 and abs(y[-1] - tot) < 1e-9 and abs(y[0] - tot) < 1e-9)):
                                        d = f"precedence: plain histogram sums to {y.sum()}, expected {tot}"
                            if d is None and not np.array_equal(np.asarray(p1.y), np.asarray(p1b.y)):
                                d = "idempotence: histogram1d returned different data on the second call"
                            if d:
                                rep.mismatch({"module": "LayerOptions", "fn": "histogram1d", "field": d.split(":")[0]},
                                             f"histogram1d layer-level {sorted(lkw)} call-level {sorted(ckw)}: {d}", case={"lkw": sorted(lkw), "ckw": sorted(ckw)}, module="layers")
                            else:
                                rep.validated()
    # scatter and plot: nothing they are given changes, same data again
    x = osyris.Array(np.array([1.0, 2.0, 3.0, 4.0]), unit="m", name="x")
    yv = osyris.Array(np.array([2.0, 1.0, 4.0, 3.0]), unit="s", name="y")
    col = osyris.Array(np.array([1.0, 10.0, 100.0, 1000.0]), unit="K", name="c")
    siz = osyris.Array(np.array([1.0, 2.0, 3.0, 4.0]), unit="cm", name="s")
    pos = osyris.Vector(np.array([1.0, 2.0]), np.array([3.0, 4.0]), unit="au", name="pos")
    for k in range(6):
        snaps = [snap_array(a) for a in (x, yv, col, siz, pos)]
        rep.case(klass=("scatter/plot", k))
        try:
            if k == 0:
                r1 = osyris.scatter(x, yv, color=col, norm="log", vmin=1.0)
                r2 = osyris.scatter(x, yv, color=col, norm="log", vmin=1.0)
            elif k == 1:
                r1 = osyris.scatter(x, x * 2.0, size=siz, color="red")
                r2 = osyris.scatter(x, x * 2.0, size=siz, color="red")
            elif k == 2:
                r1 = osyris.scatter(pos, yv[:2], loglog=True)
                r2 = osyris.scatter(pos, yv[:2], loglog=True)
            elif k == 3:
                r1 = osyris.plot(x, yv, marker="o")
                r2 = osyris.plot(x, yv, marker="o")
            elif k == 4:
                r1 = osyris.plot(x, yv, yv * 2.0, logx=True)
                r2 = osyris.plot(x, yv, yv * 2.0, logx=True)
            else:
                r1 = osyris.plot({"x": x, "y": yv}, {"x": x * 2.0, "y": yv}, color="k")
                r2 = osyris.plot({"x": x, "y": yv}, {"x": x * 2.0, "y": yv}, color="k")
        except Exception as e:
            rep.mismatch({"module": "LayerOptions", "fn": "scatter/plot", "field": "raises"}, f"scatter/plot variant {k}: {type(e).__name__}: {e}", case={"k": k}, module="layers")
            continue
        finally:
            plt.close("all")
        d = None
        if not all(same_array_snap(a, snap_array(b)) for a, b in zip(snaps, (x, yv, col, siz, pos))):
            d = "arguments: an Array/Vector given to scatter/plot was modified"
        if d:
            rep.mismatch({"module": "LayerOptions", "fn": "scatter/plot", "field": "arguments"}, f"variant {k}: {d}", case={"k": k}, module="layers")
        else:
            rep.validated()


def run_same_array_layers(rep, tier, rng):
    """two Layers holding the very same Array, with different operations: each is reduced with its own; weights that hold
    undefined values are an input like any other (left as they are)"""
    import matplotlib.pyplot as plt
    import numpy as np
    import osyris
    Layer = osyris.core.layer.Layer
    x = osyris.Array(np.array([0.5, 0.5, 2.5, 3.5, 0.5, 1.5]), unit="m")
    y = osyris.Array(np.array([0.5, 0.5, 1.5, 1.5, 2.5, 3.5]), unit="s")
    w = osyris.Array(np.array([1.0, 2.0, 4.0, 8.0, 16.0, 32.0]), unit="K", name="w")
    tot_sum = float(w.values.sum())
    tot_mean = tot_sum - 0.5 * float(w.values[0] + w.values[1])       # points 0 and 1 share a bin
    for ops in (("mean", "sum"), ("sum", "mean"), ("mean", None), (None, "mean"), ("mean", "mean")):
        for call_op in (None, "sum", "mean"):
            layers = [Layer(w, **({"operation": o} if o else {})) for o in ops]
            rep.case(klass=("histogram2d-same-array", ops, call_op))
            d = None
            try:
                with contextlib.redirect_stdout(io.StringIO()):
                    p = osyris.histogram2d(x, y, *layers, resolution=4, xmin=0.0, xmax=4.0, ymin=0.0, ymax=4.0, plot=False, **({"operation": call_op} if call_op else {}))
                for li, o in enumerate(ops):
                    eff = o or call_op or "sum"
                    tot = float(np.ma.filled(p.layers[li]["data"], 0.0).sum())
                    want = tot_sum if eff == "sum" else tot_mean
                    if abs(tot - want) > 1e-9:
                        d = f"precedence: layer {li + 1} (operation {o!r}, call {call_op!r}) adds up to {tot}, expected {want} ({eff})"
                        break
                if d is None and not np.array_equal(w.values, [1.0, 2.0, 4.0, 8.0, 16.0, 32.0]):
                    d = "arguments: the Array shown by both layers was modified"
            except Exception as e:
                d = f"raises: {type(e).__name__}: {e}"
            if d:
                rep.mismatch({"module": "LayerOptions", "fn": "histogram2d", "field": "same-array-" + d.split(":")[0]}, f"two layers of one Array, operations {ops}, call-level {call_op}: {d}",
                             case={"ops": ops, "call": call_op}, module="layers")
            else:
                rep.validated()
    # two DIFFERENT Arrays that carry the same name (derived quantities are unnamed): each layer shows its own values
    a1 = osyris.Array(np.array([1.0, 2.0, 4.0, 8.0, 16.0, 32.0]), unit="K")
    a2 = osyris.Array(np.array([3.0, 3.0, 5.0, 5.0, 7.0, 9.0]), unit="K")
    for op in ("sum", "mean"):
        rep.case(klass=("histogram2d-same-name", op))
        d = None
        try:
            with contextlib.redirect_stdout(io.StringIO()):
                p = osyris.histogram2d(x, y, Layer(a1), Layer(a2), resolution=4, xmin=0.0, xmax=4.0, ymin=0.0, ymax=4.0, plot=False, operation=op)
            for li, arr in enumerate((a1, a2)):
                tot = float(np.ma.filled(p.layers[li]["data"], 0.0).sum())
                want = float(arr.values.sum()) - (0.5 * float(arr.values[0] + arr.values[1]) if op == "mean" else 0.0)
                if abs(tot - want) > 1e-9:
                    d = f"layers: layer {li + 1} of two unnamed Arrays adds up to {tot}, its own values give {want} ({op})"
                    break
        except Exception as e:
            d = f"raises: {type(e).__name__}: {e}"
        if d:
            rep.mismatch({"module": "LayerOptions", "fn": "histogram2d", "field": "same-name-" + d.split(":")[0]}, f"two unnamed Arrays as layers: {d}", case={"op": op}, module="layers")
        else:
            rep.validated()
    # histogram1d with weights that hold an undefined value, at layer and at call level
    vals = osyris.Array(np.array([0.5, 1.5, 2.5, 3.5, 0.5, 1.5, 2.5, 3.5]), unit="m")
    for level in ("layer", "call"):
        wn = osyris.Array(np.array([1.0, np.nan, 2.0, np.inf, 1.0, 1.0, 1.0, 1.0]), unit="g", name="wn")
        keep = wn.values.copy()
        rep.case(klass=("histogram1d-nan-weights", level))
        d = None
        try:
            with contextlib.redirect_stdout(io.StringIO()), np.errstate(all="ignore"):
                if level == "layer":
                    osyris.histogram1d(Layer(vals, weights=wn), bins=4)
                else:
                    osyris.histogram1d(Layer(vals), bins=4, weights=wn)
            if not np.array_equal(wn.values, keep, equal_nan=True):
                d = f"arguments: the weights given at {level} level were modified ({keep.tolist()} -> {wn.values.tolist()})"
        except Exception as e:
            d = f"raises: {type(e).__name__}: {e}"
        finally:
            plt.close("all")
        if d:
            rep.mismatch({"module": "LayerOptions", "fn": "histogram1d", "field": "nan-weights-" + d.split(":")[0]}, f"histogram1d: {d}", case={"level": level}, module="layers")
        else:
            rep.validated()


def run_map_scatter_layer(rep, tier, rng):
    """a scatter layer on a map (sink particles over a slice): its colour and size options come from the layer, else from the
    call, and the arguments are left as they were"""
    import matplotlib.pyplot as plt
    import numpy as np
    import osyris
    from matplotlib.collections import PathCollection
    from matplotlib.colors import to_rgba
    for lset in ((), ("c",), ("s",), ("c", "s")):
        for cset in ((),):          # call-level keyword options go to every layer, and an image layer has no use for c= / s=
            dg = mesh3()
            sinks = osyris.Datagroup()
            sinks["position"] = osyris.Vector(np.array([0.4, 0.6]), np.array([0.45, 0.55]), np.array([0.5, 0.5]), unit="cm")
            LV, CV = {"c": "white", "s": 30.0}, {"c": "red", "s": 70.0}
            lkw = {k: LV[k] for k in lset}
            ckw = {k: CV[k] for k in cset}
            L = sinks.layer("position", mode="scatter", **lkw)
            before = (snap_layer(L), {k: snap_array(v) for k, v in sinks.items()})
            rep.case(klass=("map-scatter-layer", lset, cset))
            d = None
            try:
                with contextlib.redirect_stdout(io.StringIO()):
                    p = osyris.map(dg.layer("density"), L, dx=1.0 * osyris.units("cm"), origin=osyris.Vector(0.5, 0.5, 0.5, unit="cm"), resolution=4, plot=True, **ckw)
                pcs = [c for c in p.ax.collections if isinstance(c, PathCollection)]
                if len(pcs) != 1:
                    d = f"drawn: {len(pcs)} point collections on the map, expected the one scatter layer"
                else:
                    want_c = LV["c"] if "c" in lset else CV["c"] if "c" in cset else None
                    want_s = LV["s"] if "s" in lset else CV["s"] if "s" in cset else None
                    fc = pcs[0].get_facecolor()
                    if want_c is not None and not np.allclose(fc[0], to_rgba(want_c)):
                        d = f"precedence: points drawn with colour {fc[0].tolist()}, expected {want_c!r} ({'layer' if 'c' in lset else 'call'} level)"
                    if d is None and want_s is not None and not np.allclose(pcs[0].get_sizes(), want_s):
                        d = f"precedence: points drawn with size {pcs[0].get_sizes().tolist()}, expected {want_s} ({'layer' if 's' in lset else 'call'} level)"
                after = (snap_layer(L), {k: snap_array(v) for k, v in sinks.items()})
                if d is None and not (same_layer(before[0], after[0]) and all(same_array_snap(before[1][k], after[1][k]) for k in before[1])):
                    d = "arguments: the scatter Layer or its data were modified by the call"
            except Exception as e:
                d = f"raises: {type(e).__name__}: {e}"
            finally:
                plt.close("all")
            if d:
                rep.mismatch({"module": "LayerOptions", "fn": "map", "field": "scatter-layer-" + d.split(":")[0]}, f"scatter layer options {lkw}, call options {ckw}: {d}",
                             case={"lset": lset, "cset": cset}, module="layers")
            else:
                rep.validated()


def run_norm_instances(rep, tier, rng):
    """a matplotlib norm object given at call or layer level is an input like any other: it is left as it was (matplotlib
    scales a norm in place when it draws), each layer is scaled on its own data, and vmin/vmax apply as for the named norms"""
    import matplotlib.pyplot as plt
    import numpy as np
    import osyris
    from matplotlib.colors import LogNorm, Normalize
    for fn in ("map", "histogram2d"):
        for level in ("call", "layer"):
            for limits in (False, True):
                dg = mesh3()
                norm = LogNorm() if fn == "map" else Normalize()
                lkw = {"norm": norm} if level == "layer" else {}
                ckw = {"norm": norm} if level == "call" else {}
                if limits:
                    (lkw if level == "layer" else ckw).update(vmin=3.0, vmax=6.0)
                rep.case(klass=("norm-instance", fn, level, limits))
                d = None
                try:
                    with contextlib.redirect_stdout(io.StringIO()):
                        if fn == "map":
                            L1, L2 = dg.layer("density", **lkw), dg.layer("pressure")
                            p = osyris.map(L1, L2, dx=1.0 * osyris.units("cm"), origin=osyris.Vector(0.5, 0.5, 0.5, unit="cm"), resolution=4, plot=True, **ckw)
                        else:
                            x = osyris.Array(np.array([0.5, 0.5, 2.5, 3.5, 0.5, 1.5]), unit="m")
                            y = osyris.Array(np.array([0.5, 0.5, 1.5, 1.5, 2.5, 3.5]), unit="s")
                            L1 = osyris.core.layer.Layer(osyris.Array(np.array([1.0, 2.0, 4.0, 8.0, 16.0, 32.0]), unit="K"), **lkw)
                            L2 = osyris.core.layer.Layer(osyris.Array(np.array([300.0, 300.0, 500.0, 500.0, 700.0, 900.0]), unit="g"))
                            p = osyris.histogram2d(x, y, L1, L2, resolution=4, xmin=0.0, xmax=4.0, ymin=0.0, ymax=4.0, plot=True, **ckw)
                    if (norm.vmin, norm.vmax) != (None, None):
                        d = f"arguments: the norm object given at {level} level was modified (vmin, vmax = {norm.vmin}, {norm.vmax})"
                    used = [lay["params"]["norm"] for lay in p.layers]
                    if d is None and any(u is norm for u in used):
                        d = "arguments: the caller's norm object itself is used for drawing (matplotlib scales it in place)"
                    if d is None and level == "call" and used[0] is used[1]:
                        d = "precedence: two layers share one norm object, the second is drawn with the colour range of the first"
                    if d is None and limits and (used[0].vmin, used[0].vmax) != (3.0, 6.0):
                        d = f"precedence: vmin/vmax given next to a norm object are dropped (range {used[0].vmin}, {used[0].vmax})"
                except Exception as e:
                    d = f"raises: {type(e).__name__}: {e}"
                finally:
                    plt.close("all")
                if d:
                    rep.mismatch({"module": "LayerOptions", "fn": fn, "field": "norm-instance-" + d.split(":")[0]}, f"{fn}, norm object at {level} level{', with vmin/vmax' if limits else ''}: {d}",
                                 case={"fn": fn, "level": level, "limits": limits}, module="layers")
                else:
                    rep.validated()


def run_orientation_purity(rep, tier, rng):
    """ArgumentsUntouched for every way of giving the orientation (C18's request kinds) with and without an origin:
    the data (positions, velocities, masses), the origin and the orientation objects are snapshot before the first call,
    compared after each of two identical calls, and the two results must be identical"""
    import numpy as np
    import osyris
    n = 4
    c = (np.arange(n) + 0.5) / n
    X, Y, Z = np.meshgrid(c, c, c, indexing="ij")
    kinds = ["z", "x", "zyx", "yxz", "top", "side", "vector", "basis"]
    origins = ["none", "zero", "offset"]
    import numba
    nthreads = numba.get_num_threads()
    numba.set_num_threads(1)          # the repetition must not depend on which of two touching cells stores last
    try:
        _orientation_purity(rep, kinds, origins, X, Y, Z, n)
    finally:
        numba.set_num_threads(nthreads)


def _orientation_purity(rep, kinds, origins, X, Y, Z, n):
    import numpy as np
    import osyris
    for kind in kinds:
        for ok in origins:
            for thick in (False, True):
                dg = osyris.Datagroup()
                dg["position"] = osyris.Vector(X.ravel(), Y.ravel(), Z.ravel(), unit="cm")
                dg["dx"] = osyris.Array(np.full(n ** 3, 1.0 / n), unit="cm")
                dg["density"] = osyris.Array(1.0 + 8.0 * Z.ravel() + X.ravel(), unit="g/cm**3")
                dg["mass"] = osyris.Array(1.0 + X.ravel() + 2 * Y.ravel(), unit="g")
                # a rotation about an oblique axis so that "top"/"side" give a generic basis
                dg["velocity"] = osyris.Vector(Z.ravel() - 0.3 * Y.ravel(), 0.3 * X.ravel() - 0.2 * Z.ravel(), 0.2 * Y.ravel() - X.ravel(), unit="cm/s")
                origin = {"none": None, "zero": osyris.Vector(0.0, 0.0, 0.0, unit="cm"), "offset": osyris.Vector(0.4375, 0.5625, 0.4375, unit="cm")}[ok]
                dirv = osyris.Vector(1.0, 2.0, 2.0, name="mydir")
                dirb = osyris.VectorBasis(n=osyris.Vector(0.0, 0.0, 1.0, name="bn"), u=osyris.Vector(1.0, 0.0, 0.0, name="bu"), v=osyris.Vector(0.0, 1.0, 0.0, name="bv"))
                direction = {"vector": dirv, "basis": dirb}.get(kind, kind)
                snap = lambda: {"dg": {k: snap_array(v) for k, v in dg.items()}, "origin": snap_array(origin) if origin is not None else None,
                                "dirs": [snap_array(dirv), snap_array(dirb.n), snap_array(dirb.u), snap_array(dirb.v)], "names": [dirv.name, dirb.n.name, dirb.u.name, dirb.v.name, dirv.x.name]}
                before = snap()
                rep.case(klass=("orientation-purity", kind, ok, thick))
                d, results = None, []
                try:
                    for rpt in (1, 2):
                        with contextlib.redirect_stdout(io.StringIO()):
                            kw = dict(dx=0.5 * osyris.units("cm"), resolution=8, direction=direction, plot=False)
                            if origin is not None:
                                kw["origin"] = origin
                            if thick:
                                kw["dz"] = 0.25 * osyris.units("cm")
                            try:
                                p = osyris.map(dg.layer("density"), **kw)
                            except RuntimeError:      # an empty map may be refused (the plane misses the data); purity is still checked
                                p = None
                        results.append(None if p is None else np.ma.filled(np.ma.masked_invalid(np.asarray(p.layers[0]["data"], dtype=float)), -1.0))
                        after = snap()
                        if not all(same_array_snap(before["dg"][k], after["dg"][k]) for k in before["dg"]):
                            bad = [k for k in before["dg"] if not same_array_snap(before["dg"][k], after["dg"][k])]
                            d = f"arguments: data members {bad} were modified by call {rpt}"
                        elif before["origin"] is not None and not same_array_snap(before["origin"], after["origin"]):
                            d = f"arguments: the origin was modified by call {rpt}"
                        elif not all(same_array_snap(a, b) for a, b in zip(before["dirs"], after["dirs"])) or before["names"] != after["names"]:
                            d = f"arguments: the orientation object was modified by call {rpt}"
                        if d:
                            break
                except Exception as e:
                    d = f"raises: {type(e).__name__}: {e}"
                if d is None and kind not in ("z", "x", "zyx", "yxz") and ((results[0] is None) != (results[1] is None) or (results[0] is not None and not np.allclose(results[0], results[1], rtol=1e-12, atol=0))):
                    # axis-aligned planes through cell faces are excluded from the repetition (face pixels may go either way)
                    d = "repetition: two identical calls on the same inputs returned different maps"
                if d:
                    rep.mismatch({"module": "LayerOptions", "fn": "map", "field": "orientation-" + d.split(":")[0]}, f"direction kind {kind} origin {ok} {'thick' if thick else 'thin'}: {d}",
                                 case={"kind": kind, "origin": ok, "thick": thick}, module="layers")
                else:
                    rep.validated()


def run_c19(rep, tier, seed):
    import osyris  # noqa
    rng = random.Random(seed + 61)
    os.makedirs(os.path.join(common.WORK, "cfg"), exist_ok=True)
    cfg = os.path.join(common.WORK, "cfg", "LayerOptions.cfg")
    with open(cfg, "w") as f:
        f.write(open(os.path.join(common.TLA, "cfg", "LayerOptions.cfg")).read() + f"CONSTANTS Depth = 2  Full = {'FALSE' if tier == 'quick' else 'FALSE'}\n")
    res = common.run_tlc("LayerOptions", cfg, workers=8, timeout=1200)
    rep.tlc(res, "LayerOptions histories depth 2")
    recs = res.json_lines()
    one = [r for r in recs if len(r["hist"]) == 1]
    two = [r for r in recs if len(r["hist"]) == 2]
    ntwo = 700 if tier == "quick" else 12000
    chosen = one + rng.sample(two, min(ntwo, len(two)))
    for idx, rec in enumerate(chosen):
        run_history(rep, rec, idx, rng)
    run_hist1d_scatter_plot(rep, tier, rng)
    run_orientation_purity(rep, tier, rng)
    run_norm_instances(rep, tier, rng)
    run_map_scatter_layer(rep, tier, rng)
    run_same_array_layers(rep, tier, rng)
    rep.sample({"history": chosen[len(one) + 1]["hist"], "layer_level_options": chosen[len(one) + 1]["layer"]}, limit=2)
    rep.part("replay", histories=len(chosen), of_length_1=len(one), of_length_2=len(chosen) - len(one), emitted=len(recs))
    rep.cov["rule"] = ("LayerOptions.tla enumerates every history of up to 2 calls of map / histogram2d over the lattice of call-level option sets (each of mode, norm, vmin, vmax, operation, extra keyword "
                       "set at the call or not; sets of size <= 2 and the full set) for every layer-level option set, the Layer objects, resolution dict, origin and window being shared by the calls; "
                       "invariants ArgumentsUntouched and Precedence; the harness observes the effective options through Plot.layers and through the data, snapshots every argument and repeats calls; "
                       "histogram1d (bins, weights, keyword option at each level), scatter and plot are replayed for purity; distinct = (function, layer-level set, call-level set, position in the history)")
    rep.assumptions += ["rendering beyond Plot.layers / Plot.x / Plot.y is not compared"]


def replay(rep, rec):
    print("replay: re-run ./check C19; case:", json.dumps(rec.get("case"))[:500])
