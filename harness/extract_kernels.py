"""Structure facts of the two numba kernels in osyris/plot/utils.py, read from the source with ast (nothing is executed).
Anything not recognised is a machinery error, never a silent default."""
import ast
import os

from . import common
from .common import MachineryError


def _decorator_parallel(fn):
    for d in fn.decorator_list:
        if isinstance(d, ast.Call) and getattr(d.func, "id", getattr(d.func, "attr", "")) in ("njit", "jit"):
            for kw in d.keywords:
                if kw.arg == "parallel" and isinstance(kw.value, ast.Constant):
                    return bool(kw.value.value)
            return False
        if isinstance(d, (ast.Name, ast.Attribute)) and getattr(d, "id", getattr(d, "attr", "")) in ("njit", "jit"):
            return False
    raise MachineryError(f"kernel {fn.name} has no recognised numba decorator")


def _outer_loop(fn):
    for node in fn.body:
        if isinstance(node, ast.For) and isinstance(node.iter, ast.Call):
            name = getattr(node.iter.func, "id", getattr(node.iter.func, "attr", None))
            if name in ("range", "prange"):
                return node, name
            raise MachineryError(f"kernel {fn.name}: outer loop iterates over unknown {name}")
    raise MachineryError(f"kernel {fn.name}: no outer for loop found")


def kernel_facts():
    path = os.path.join(common.REPO, "src", "osyris", "plot", "utils.py")
    tree = ast.parse(open(path).read())
    fns = {n.name: n for n in tree.body if isinstance(n, ast.FunctionDef)}
    if "hist2d" not in fns or "evaluate_on_grid" not in fns:
        raise MachineryError("kernels hist2d / evaluate_on_grid not found in plot/utils.py")
    facts = {}
    for name in ("hist2d", "evaluate_on_grid"):
        fn = fns[name]
        par_flag = _decorator_parallel(fn)
        loop, loopkind = _outer_loop(fn)
        aug, plain, rounding = [], [], set()
        for node in ast.walk(loop):
            if isinstance(node, ast.AugAssign) and isinstance(node.target, ast.Subscript):
                aug.append(ast.unparse(node.target))
            if isinstance(node, ast.Assign) and any(isinstance(t, ast.Subscript) for t in node.targets):
                plain.append(ast.unparse(node.targets[0]))
            if isinstance(node, ast.Call) and getattr(node.func, "id", None) == "int":
                inner = node.args[0]
                if isinstance(inner, ast.Call) and getattr(inner.func, "attr", getattr(inner.func, "id", "")) == "floor":
                    rounding.add("floor")
                else:
                    rounding.add("trunc")
        # numba only privatises reductions on whole variables; an indexed element of a shared array updated
        # inside a parallel loop is a read-modify-write race
        parallel = par_flag and loopkind == "prange"
        facts[name] = {"parallel_decorator": par_flag, "loop": loopkind, "parallel": parallel,
                       "shared_augmented_updates": aug, "shared_plain_stores": plain, "rounding": sorted(rounding)}
    if len(facts["hist2d"]["rounding"]) != 1:
        raise MachineryError(f"hist2d: bin index rounding not recognised: {facts['hist2d']['rounding']}")
    return facts
