"""The concrete counterpart of tla/Containers.tla: a world of real osyris objects, the actions of the
specification executed through the public API, and the projection onto the specification's variables.
Used in both directions: replay of TLC-emitted transitions (S->C) and recording of traces (C->S)."""
import copy
import operator
from fractions import Fraction as F

import numpy as np

from .units_map import pint_of_sparse, rat, sparse_of_pint

DT = {"float64": "f8", "int64": "i8", "bool": "b1", "float32": "f4", "int32": "i4"}
IOPS = {"add": operator.iadd, "sub": operator.isub, "mul": operator.imul, "div": operator.itruediv}


def index_object(kind, n):
    import osyris
    odd = np.array([i % 2 == 0 for i in range(n)], dtype=bool)      # rows 1,3,5.. (1-based) = positions 0,2,4..
    if kind == "i0":
        return 0
    if kind == "im1":
        return -1
    if kind == "imn":
        return -n if n else -1
    if kind == "iout":
        return n
    if kind == "s02":
        return slice(0, 2)
    if kind == "s_2":
        return slice(None, None, 2)
    if kind == "srev":
        return slice(None, None, -1)
    if kind == "s1_":
        return slice(1, None)
    if kind == "mask":
        return odd
    if kind == "maskArr":
        return osyris.Array(odd)
    if kind == "maskBad":
        return np.ones(n + 1, dtype=bool)
    if kind == "maskNone":
        return np.zeros(n, dtype=bool)
    if kind == "ia":
        return np.array([n - 1, n - 1, 0])
    if kind == "iaArr":
        return osyris.Array(np.array([n - 1, n - 1, 0]))
    if kind == "perm":
        return np.array((list(range(1, n)) + [0]) if n else [], dtype=int)
    if kind == "faArr":
        return osyris.Array(np.array([0.0, 1.0]))
    if kind == "vecIdx":
        return osyris.Vector(np.array([0, 1]), np.array([1, 0]))
    raise ValueError(kind)


def comps_of(obj):
    import osyris
    if isinstance(obj, osyris.Vector):
        return [c for c in (obj.x, obj.y, obj.z) if c is not None]
    return [obj]


def vals_of(arr):
    a = arr._array
    flat = np.atleast_1d(a).ravel().tolist()
    return flat


POOL_TIES = False        # the sort-ties phase: the integer pool object holds [2, 0, 2]
POOL_TABLE = False       # the alias-table phase: the components of the pool Vector are the columns of one 2-D table
                         # (as for vectors made from the columns of a file): same abstract buffers, another memory layout


class World:
    def __init__(self):
        import osyris
        A, V = osyris.Array, osyris.Vector
        self.osyris = osyris
        self.objs = [A(np.array([3.0, 1.0, 2.0]), unit="m"), A(np.array([20.0, 30.0, 10.0]), unit="s"),
                     A(np.array([7.0, 5.0]), unit="m"), A(9.0, unit="m"),
                     (V(np.array([100.0, 300.0, 200.0]), np.array([4.0, 6.0, 5.0]), unit="cm") if not POOL_TABLE else
                      (lambda tab: V(tab[:, 0], tab[:, 1], unit="cm"))(np.array([[100.0, 4.0], [300.0, 6.0], [200.0, 5.0]]))),
                     A(np.array([2, 0, 2] if POOL_TIES else [2, 0, 1], dtype=np.int64)), A(np.array([500.0, 700.0, 100.0]), unit="cm"),
                     A(np.array([6.0, 2.0, 4.0], dtype=np.float32), unit="m"), A(np.array([900.0, 900.0, 900.0]), unit="cm"),
                     A(np.array([600.0, 200.0, 400.0]), unit="cm")]
        self.maskbuf = np.zeros(3, dtype=bool)        # one mask buffer reused (rewritten in place) by every mask index of length 3
        self.groups = [osyris.Datagroup(), osyris.Datagroup()]
        self.dsets = [osyris.Dataset()]
        self.res = {"t": "none"}
        self.nstep = 0

    def index_obj(self, kind, n):
        if n == 3 and kind in ("mask", "maskNone", "maskArr"):
            self.maskbuf[:] = [True, False, True] if kind != "maskNone" else [False, False, False]
            return self.osyris.Array(self.maskbuf) if kind == "maskArr" else self.maskbuf
        return index_object(kind, n)

    # ---- identity binding
    def oid(self, obj):
        for i, o in enumerate(self.objs):
            if o is obj:
                return i + 1
        self.objs.append(obj)
        return len(self.objs)

    def gid(self, grp):
        if not isinstance(grp, self.osyris.Datagroup):
            return -1
        for i, g in enumerate(self.groups):
            if g is grp:
                return i + 1
        self.groups.append(grp)
        return len(self.groups)

    def did(self, ds):
        for i, d in enumerate(self.dsets):
            if d is ds:
                return i + 1
        self.dsets.append(ds)
        return len(self.dsets)

    def did_or0(self, ds):
        for i, d in enumerate(self.dsets):
            if d is ds:
                return i + 1
        return -1

    # ---- the actions
    def apply(self, a):
        op = a["op"]
        self.res = {"t": "none"}
        self.nstep += 1
        O, G, D = self.objs, self.groups, self.dsets
        try:
            if op == "set":
                G[a["g"] - 1][a["k"]] = O[a["o"] - 1]
            elif op == "del":
                del G[a["g"] - 1][a["k"]]
            elif op == "pop":
                self.res = {"t": "obj", "o": self.oid(G[a["g"] - 1].pop(a["k"]))}
            elif op == "popd":
                r = G[a["g"] - 1].pop(a["k"], None)
                if r is not None:
                    self.res = {"t": "obj", "o": self.oid(r)}
            elif op == "get":
                g, k = G[a["g"] - 1], a["k"]
                sentinel = object()
                if self.nstep % 2:
                    got = g.get(k)              # the default of the default is None
                    got = sentinel if got is None else got
                else:
                    got = g.get(k, sentinel)
                try:
                    direct = g[k]
                except KeyError:
                    direct = sentinel
                keys = list(g.keys())
                consistent = (got is direct and (k in g) == (got is not sentinel) and keys == list(iter(g))
                              and keys == [kk for kk, _ in g.items()] and all(x is y for (_, x), y in zip(g.items(), g.values())))
                self.res = {"t": "get", "has": (got is not sentinel) if consistent else "inconsistent",
                            "o": 0 if got is sentinel else self.oid(got), "keys": keys, "len": len(g)}
            elif op == "clear":
                G[a["g"] - 1].clear()
            elif op == "update":
                d = {k: O[o - 1] for k, o in a["pairs"]}
                if self.nstep % 2:
                    G[a["g"] - 1].update(d)
                else:
                    G[a["g"] - 1].update(**d)
            elif op == "copy":
                g = G[a["g"] - 1]
                new = g.copy() if self.nstep % 2 else copy.copy(g)
                self.res = {"t": "grp", "g": self.gid(new)}
            elif op == "deepcopy":
                g = G[a["g"] - 1]
                new = copy.deepcopy(g)
                gi = self.gid(new)
                seen = []
                for k in g.keys():                      # distinct members in order of first appearance in the source
                    if not any(g[k] is s for s in seen):
                        seen.append(g[k])
                        self.oid(new[k])
                self.res = {"t": "grp", "g": gi}
            elif op == "index":
                g = G[a["g"] - 1]
                n = len(next(iter(g.values()))) if len(g) else 0
                r = g[self.index_obj(a["kind"], n)]
                mem = {}
                for k, v in r.items():
                    mem[k] = {"kind": "vec" if isinstance(v, self.osyris.Vector) else "arr", "scalar": v.shape == (),
                              "unit": sparse_of_pint(v.unit), "name": v.name, "dt": DT.get(str(v.dtype), str(v.dtype)),
                              "c": [vals_of(c) for c in comps_of(v)], "shares": self._shares_with(v, g[k]) if k in g else 0}
                self.res = {"t": "dg", "keys": list(r.keys()), "mem": mem}
            elif op == "slice":
                o = O[a["o"] - 1]
                n = len(o)
                self.res = {"t": "obj", "o": self.oid(o[self.index_obj(a["kind"], n)])}
            elif op == "ocopy":
                o = O[a["o"] - 1]
                new = o.copy() if a["how"] == "copy" else (copy.deepcopy(o) if self.nstep % 2 else copy.copy(o))
                self.res = {"t": "obj", "o": self.oid(new)}
            elif op == "to":
                o = O[a["o"] - 1]
                target = ["m", "cm", "s"][a["u"] - 1]
                self.res = {"t": "obj", "o": self.oid(o.to(target if self.nstep % 2 else self.osyris.units(target)))}
            elif op == "vset":
                v, src = O[a["o"] - 1], O[a["src"] - 1]
                setattr(v, "xyz"[a["c"] - 1], type(src)(values=src.values.copy(), unit=src.unit))
            elif op == "sortkey":
                g = G[a["g"] - 1]
                g.sortby(a["k"])
                for k in g.keys():
                    self.oid(g[k])
            elif op == "sortidx":
                g = G[a["g"] - 1]
                g.sortby([p - 1 for p in a["p"]])
                for k in g.keys():
                    self.oid(g[k])
            elif op == "iop":
                x = O[a["o"] - 1]
                y = O[a["rhs"] - 1] if a["rhs"] > 0 else (2 if self.nstep % 2 else 2.0)
                if a["rhs"] == -4:
                    cs = [getattr(x, "xyz"[i]) for i in range(x.nvec)]
                    y = type(x)(*[cs[(i + 1) % len(cs)] for i in range(len(cs))])      # x's own components in rotated order
                elif a["rhs"] < 0:
                    y = getattr(x, "xyz"[-a["rhs"] - 1])        # one of x's own components
                if a["rhs"] == 0 and x.dtype.kind == "i":
                    y = 2
                if a.get("q"):
                    import osyris
                    y = y.unit._REGISTRY.Quantity(y._array, y.unit)      # wraps the buffer of rhs, no copy
                r = IOPS[a["f"]](x, y)
                self.res = {"t": "obj", "o": self.oid(r)}
            elif op == "eq":
                v = G[a["g"] - 1] == G[a["h"] - 1]
                self.res = {"t": "bool", "v": bool(v)} if isinstance(v, (bool, np.bool_)) else {"t": "weird", "v": repr(v)}
            elif op == "dsset":
                D[a["d"] - 1][a["k"]] = G[a["g"] - 1]
            elif op == "dssetbad":
                D[a["d"] - 1][a["k"]] = O[a["o"] - 1]
            elif op == "dsupdatebad":
                if self.nstep % 2:
                    D[a["d"] - 1].update({a["k"]: O[a["o"] - 1]})
                else:
                    D[a["d"] - 1].update(**{a["k"]: O[a["o"] - 1]})
            elif op == "dsdel":
                del D[a["d"] - 1][a["k"]]
            elif op == "dspop":
                self.res = {"t": "grp", "g": self.gid(D[a["d"] - 1].pop(a["k"]))}
            elif op == "dspopd":
                r = D[a["d"] - 1].pop(a["k"], None)
                if r is not None:
                    self.res = {"t": "grp", "g": self.gid(r)}
            elif op == "dsget":
                d, k = D[a["d"] - 1], a["k"]
                sentinel = object()
                if self.nstep % 2:
                    got = d.get(k)
                    got = sentinel if got is None else got
                else:
                    got = d.get(k, sentinel)
                try:
                    direct = d[k]
                except KeyError:
                    direct = sentinel
                keys = list(d.keys())
                ok = got is direct and keys == list(iter(d)) and (k in d) == (got is not sentinel)
                self.res = {"t": "get", "has": (got is not sentinel) if ok else "inconsistent", "o": 0 if got is sentinel else self.gid(got),
                            "keys": keys, "len": len(d)}
            elif op == "dsmeta":
                D[a["d"] - 1].meta[a["mk"]] = 1
            elif op == "dsclear":
                D[a["d"] - 1].clear()
            elif op == "dsupdate":
                d = {k: G[g - 1] for k, g in a["pairs"]}
                if self.nstep % 2:
                    D[a["d"] - 1].update(d)
                else:
                    D[a["d"] - 1].update(**d)
            elif op == "dscopy":
                d = D[a["d"] - 1]
                new = d.copy() if self.nstep % 2 else copy.copy(d)
                self.res = {"t": "ds", "d": self.did(new)}
            elif op == "dsdeepcopy":
                d = D[a["d"] - 1]
                new = copy.deepcopy(d)
                di = self.did(new)
                gseen = []
                for k in d.keys():
                    if not any(d[k] is s for s in gseen):
                        gseen.append(d[k])
                        self.gid(new[k])
                oseen = []
                for g in gseen:
                    gnew = new[[k for k in d.keys() if d[k] is g][0]]
                    for k in g.keys():
                        if not any(g[k] is s for s in oseen):
                            oseen.append(g[k])
                            self.oid(gnew[k])
                self.res = {"t": "ds", "d": di}
            else:
                raise ValueError("unknown action " + op)
        except AssertionError:
            raise
        except Exception as e:          # the call raised: an outcome, recorded by class name
            self.res = {"t": "exc", "e": type(e).__name__}

    def _shares_with(self, new, src):
        for c in comps_of(new):
            for s in comps_of(src):
                if c._array.size and np.shares_memory(c._array, s._array):
                    return self.oid(src)
        return 0

    # ---- projection onto the specification's variables
    def project(self):
        V = self.osyris.Vector
        objs = []
        for o in self.objs:
            cs = comps_of(o)
            objs.append({"k": "vec" if isinstance(o, V) else "arr", "v": [vals_of(c) for c in cs], "s": o.shape == (),
                         "u": sparse_of_pint(o.unit), "n": o.name, "dt": DT.get(str(o.dtype), str(o.dtype))})
        n = len(self.objs)
        arrs = [[c._array for c in comps_of(o)] for o in self.objs]
        share = [[0] * n for _ in range(n)]
        for i in range(n):
            for j in range(i + 1, n):
                s = any(x.size and y.size and np.shares_memory(x, y) for x in arrs[i] for y in arrs[j])
                share[i][j] = share[j][i] = int(s)
        dgs = []
        for g in self.groups:
            keys = list(g.keys())
            parent = getattr(g, "parent", None)
            dgs.append({"keys": keys, "val": [self.oid(g[k]) for k in keys], "name": g.name,
                        "parent": 0 if parent is None else self.did_or0(parent)})
        DG = self.osyris.Datagroup
        dss = [{"keys": list(d.keys()), "val": [self.gid(d[k]) if isinstance(d[k], DG) else -1 for k in d.keys()], "meta": list(d.meta.keys())} for d in self.dsets]
        return {"objs": objs, "share": share, "dgs": dgs, "dss": dss, "res": self.res}


# ---- the same view computed from a specification state (heap/bufs/dgs/dss/res as emitted)

def spec_view(st):
    heap, bufs = st["heap"], st["bufs"]
    objs, cells = [], []
    for h in heap:
        v = [[rat(bufs[c["buf"] - 1][i - 1]) for i in c["idx"]] for c in h["c"]]
        objs.append({"k": h["k"], "v": v, "s": h["s"], "u": [list(x) for x in h["u"]], "n": h["n"], "dt": h["dt"]})
        cells.append({(c["buf"], i) for c in h["c"] for i in c["idx"]})
    n = len(heap)
    share = [[int(i != j and bool(cells[i] & cells[j])) for j in range(n)] for i in range(n)]
    res = st["res"]
    if res.get("t") == "dg":
        mem = res["mem"] if isinstance(res["mem"], dict) else {}
        res = {"t": "dg", "keys": list(res["keys"]),
               "mem": {k: {**m, "unit": [list(x) for x in m["unit"]], "c": [[rat(x) for x in comp] for comp in m["c"]]} for k, m in mem.items()}}
    return {"objs": objs, "share": share,
            "dgs": [{"keys": list(g["keys"]), "val": list(g["val"]), "name": g["name"], "parent": g["parent"]} for g in st["dgs"]],
            "dss": [{"keys": list(d["keys"]), "val": list(d["val"]), "meta": list(d["meta"])} for d in st["dss"]], "res": res}


def values_equal(spec, impl, tol=F(1, 10 ** 12)):
    """spec: Fraction, impl: float/int from numpy"""
    if isinstance(impl, bool):
        return spec == int(impl)
    if spec == impl:
        return True
    try:
        return abs(F(impl) - spec) <= tol * max(abs(spec), 1)
    except (ValueError, OverflowError):
        return False


def compare(spec, impl):
    """first difference between spec view and implementation view, or None"""
    if len(spec["objs"]) != len(impl["objs"]):
        return f"objects: spec has {len(spec['objs'])}, implementation produced {len(impl['objs'])}"
    for i, (s, m) in enumerate(zip(spec["objs"], impl["objs"])):
        for f in ("k", "s", "u", "n", "dt"):
            if s[f] != m[f]:
                return f"object {i + 1}.{f}: spec {s[f]!r} != impl {m[f]!r}"
        if len(s["v"]) != len(m["v"]):
            return f"object {i + 1}: component count spec {len(s['v'])} != impl {len(m['v'])}"
        for c, (sv, mv) in enumerate(zip(s["v"], m["v"])):
            tol = F(1, 10 ** 6)       # a float32 object lives in the pool: values that passed through it carry float32 rounding
            if len(sv) != len(mv) or not all(values_equal(a, b, tol) for a, b in zip(sv, mv)):
                return f"object {i + 1} component {c + 1} values: spec {[float(x) for x in sv]} != impl {mv}"
    if spec["share"] != impl["share"]:
        for i, (a, b) in enumerate(zip(spec["share"], impl["share"])):
            if a != b:
                j = [x != y for x, y in zip(a, b)].index(True)
                return f"buffer sharing of objects {i + 1},{j + 1}: spec {bool(a[j])} != impl {bool(b[j])}"
    for name in ("dgs", "dss"):
        if len(spec[name]) != len(impl[name]):
            return f"{name}: spec has {len(spec[name])}, implementation {len(impl[name])}"
        for i, (s, m) in enumerate(zip(spec[name], impl[name])):
            for f in s:
                if s[f] != m[f]:
                    return f"{name}[{i + 1}].{f}: spec {s[f]!r} != impl {m[f]!r}"
    return compare_res(spec["res"], impl["res"])


def compare_res(s, m):
    if s["t"] == "exc":
        if m["t"] != "exc":
            return f"result: spec raises {s['e']}, implementation returned {m}"
        if s["e"] == "KeyError" and m["e"] != "KeyError":
            return f"result: spec raises KeyError, implementation raised {m['e']}"
        return None
    if s["t"] == "noteq":       # no element-wise comparison exists: False or an exception, never True
        if m["t"] == "exc" or (m["t"] == "bool" and m["v"] is False):
            return None
        return f"result: groups that cannot be compared element-wise compared as {m}"
    if m["t"] == "exc":
        return f"result: spec returns {s['t']}, implementation raised {m['e']}"
    if s["t"] != m["t"]:
        return f"result kind: spec {s} != impl {m}"
    if s["t"] == "dg":
        if s["keys"] != m["keys"]:
            return f"result keys: spec {s['keys']} != impl {m['keys']}"
        for k in s["keys"]:
            a, b = s["mem"][k], m["mem"][k]
            for f in ("kind", "scalar", "unit", "name", "dt", "shares"):
                if a[f] != b[f]:
                    return f"result member {k}.{f}: spec {a[f]!r} != impl {b[f]!r}"
            if len(a["c"]) != len(b["c"]):
                return f"result member {k}: component count"
            for c, (sv, mv) in enumerate(zip(a["c"], b["c"])):
                tol = F(1, 10 ** 6)
                if len(sv) != len(mv) or not all(values_equal(x, y, tol) for x, y in zip(sv, mv)):
                    return f"result member {k} component {c + 1} rows: spec {[float(x) for x in sv]} != impl {mv}"
        return None
    for f in s:
        if s[f] != m.get(f):
            return f"result.{f}: spec {s[f]!r} != impl {m.get(f)!r}"
    return None
