#!/usr/bin/env python3
"""tools/wave_brief.py <Cxx> <worktree>: the brief of tools/agent_prompt.py plus (a) the titles of all earlier seeded
changes on that property (to avoid repeats) and (b) the inputs the verification does not claim (DESIGN.md §6), so that the
agent spends its effort inside the claimed domain.  Nothing about how /verif checks anything is disclosed."""
import glob, json, subprocess, sys
pid, wt = sys.argv[1], sys.argv[2]
base = subprocess.run([sys.executable, "/verif/tools/agent_prompt.py", pid, wt, "2"], capture_output=True, text=True).stdout
titles = []
for m in sorted(glob.glob(f"/verif/seeded/{pid}-*/meta.json")):
    try:
        titles.append(json.load(open(m)).get("title", ""))
    except Exception:
        pass
OUT = {
 "C02": "pint Quantities or Python numbers on the LEFT of an operator; complex dtypes; offset/logarithmic units (degC, dB); float32 data whose conversion factor lies outside the float32 range",
 "C05": "limits passed as pint Quantities; points exactly on an inner bin edge of a grid whose width is not a power of two (either side is accepted)",
 "C07": "offset/logarithmic units; complex dtypes; a pint Quantity on the left of the comparison",
 "C08": "complex dtypes; offset/logarithmic units; constants differing only within the uncertainty of G (relative 1e-6)",
 "C09": "ragged Vectors (components of different lengths); a Vector built from one Array object three times; complex dtypes",
 "C10": "numpy functions with no rule in Array._wrap_numpy (np.where, np.clip, np.append, np.dot, np.cross, np.arctan2, np.float_power, np.diff(prepend=)); complex dtypes",
 "C16": "Datagroup.update atomicity; RamsesDataset.copy() depth; meta counters",
 "C18": "directions given as plain lists; extreme vector lengths; the exact region 'top'/'side' take their cells from (only its dependence on dx, dy and the data is fixed)",
 "C19": "call-level c=/s= options for scatter layers on maps; plotting (render) itself",
 "C20": "members holding NaN; Datagroup.update atomicity; groups above a few thousand rows (size thresholds)",
}
print(base)
print("\nADDITIONAL GUIDANCE FOR THIS ROUND")
print("* Prefer refactoring-style changes (a vectorised loop, a hoisted computation, a fast path, an early exit, a cache, a helper shared by two call sites); two edits that are each fine alone but wrong together are especially welcome. The failing inputs should be ones a user of the property would realistically meet, not exotic ones.")
print("* Behaviour that depends on data SIZE thresholds (e.g. 'arrays above N MiB') is out of scope.")
if pid in OUT:
    print(f"* Out of scope for {pid} (do not build a change that only shows there): {OUT[pid]}.")
if titles:
    print("* Changes already made in earlier rounds (make something different in kind, not a variation):")
    for t in titles:
        print("   - " + t[:160])
