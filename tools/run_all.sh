#!/bin/bash
# tools/run_all.sh <tier>  -- run every registered check once, print one line per check
tier=${1:-quick}
cd "$(dirname "$0")/.."
for c in C01 C02 C03 C04 C05 C06 C07 C08 C09 C10 C11 C12 C13 C14 C15 C16 C17 C18 C19 C20; do
  s=$(date +%s)
  timeout 7200 ./check $c --tier $tier > /tmp/runall.$c.log 2>&1; rc=$?
  e=$(date +%s)
  echo "$c tier=$tier rc=$rc wall=$((e-s))s $(grep -c '^VIOLATION' /tmp/runall.$c.log) violations; $(tail -1 /tmp/runall.$c.log | cut -c1-200)"
done
