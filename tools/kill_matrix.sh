#!/bin/bash
# tools/kill_matrix.sh [tier] [parallel] -- run every seeded change against the check of its property (plus the history
# checks some changes need); writes seeded/KILL_MATRIX.md.  Every run uses its own scratch worktree (tools/run_seeded.sh).
tier=${1:-quick}; par=${2:-4}
cd /verif
declare -A EXTRA=( [C01-w1]="C15" [C02-w1]="C17" [C04-w2]="C15" [C13-m2]="C15" [C11-m2]="C19" [C12-m2]="C04" [C04-m2]="C04"
  [regress-D3]="C10" [regress-D4]="C10" [regress-D1]="C02 C10" [regress-D21]="C02 C10" [regress-D40]="C02 C07 C10"
  [C07-x1]="C17" [C08-x1]="C17" [C09-x1]="C17" [C12-x2]="C15" [C17-y2]="C02" [C19-z1]="C11" [C03-v2]="C18" [C11-v2]="C03" [C13-t2]="C14" [C08-t2]="C09" [C12-z2]="C15" [C13-z1]="C15" [C14-z1]="C15" [C14-r2]="C15" [C16-q2]="C06" )
jobs=$(mktemp); res=$(mktemp); : > $res.skip
for d in seeded/*/; do
  id=$(basename $d)
  python3 -c "import json,sys;sys.exit(1 if json.load(open('$d/meta.json')).get('neutralised_by') else 0)" || { echo "| $id | - | - | neutralised by a later repair (see meta.json) |" >> $res.skip; continue; }
  prop=$(python3 -c "import json;print(json.load(open('$d/meta.json'))['property'])")
  for c in $(echo "$prop ${EXTRA[$id]}" | tr ' ' '\n' | sort -u); do echo "$id $prop $c" >> $jobs; done
done
cat $jobs | xargs -P $par -L 1 bash -c '
  id=$0; prop=$1; c=$2
  r=$(./tools/run_seeded.sh $id $c '$tier' 2>&1 | grep "^SEEDED")
  rc=$(echo "$r" | sed "s/.*rc=\([0-9]*\).*/\1/"); nv=$(echo "$r" | sed "s/.*violations=\([0-9]*\).*/\1/")
  out="MISSED"; [ "$rc" = "1" ] && out="detected ($nv violation classes)"; [ "$rc" = "2" ] && out="machinery error"; [ -z "$rc" ] && out="not run"
  echo "| $id | $prop | $c | $out |" >> '$res'
  echo "$id $c $out"
'
python3 - $res $res.skip > seeded/KILL_MATRIX.md <<'PY'
import sys, collections
rows = [l.strip().strip("|").split("|") for f in sys.argv[1:] for l in open(f) if l.strip()]
per = collections.OrderedDict()
for seed, prop, chk, out in sorted([[c.strip() for c in r] for r in rows]):
    per.setdefault(seed, {"prop": prop, "det": [], "miss": [], "other": []})
    (per[seed]["det"] if out.startswith("detected") else per[seed]["miss"] if out == "MISSED" else per[seed]["other"]).append((chk, out))
ndet = sum(1 for v in per.values() if v["det"])
nneu = sum(1 for v in per.values() if any("neutralised" in o for _, o in v["other"]))
nmiss = sum(1 for v in per.values() if not v["det"] and v["miss"])
print(f"Seeded changes: {len(per)}; detected by at least one check: {ndet}; neutralised by a later repair: {nneu}; not detected: {nmiss} (each explained in DESIGN.md section 8).\n")
print("| seed | property | detected by | not detected by | note |\n|---|---|---|---|---|")
for seed, v in per.items():
    print(f"| {seed} | {v['prop']} | {', '.join(c + ' (' + o.split('(')[1].split(' ')[0] + ')' for c, o in v['det'])} | {', '.join(c for c, _ in v['miss'])} | {'; '.join(o for _, o in v['other'])} |")
PY
rm -f $jobs $res $res.skip
