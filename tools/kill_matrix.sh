#!/bin/bash
# tools/kill_matrix.sh [tier] [parallel] -- run every seeded change against the check of its property (plus the history
# checks some changes need); writes seeded/KILL_MATRIX.md.  Every run uses its own scratch worktree (tools/run_seeded.sh).
tier=${1:-quick}; par=${2:-4}
cd /verif
declare -A EXTRA=( [C01-w1]="C15" [C02-w1]="C17" [C04-w2]="C15" [C13-m2]="C15" [C11-m2]="C19" [C12-m2]="C04" [C04-m2]="C04"
  [regress-D3]="C10" [regress-D4]="C10" [regress-D1]="C02 C10" [regress-D21]="C02 C10" [regress-D40]="C02 C07 C10"
  [C07-x1]="C17" [C08-x1]="C17" [C09-x1]="C17" [C12-x2]="C15" [C17-y2]="C02" [C19-z1]="C11" [C03-v2]="C18" [C11-v2]="C03" [C12-z2]="C15" [C13-z1]="C15" [C14-z1]="C15" )
jobs=$(mktemp); res=$(mktemp); : > $res.skip
for d in seeded/*/; do
  id=$(basename $d)
  python3 -c "import json,sys;sys.exit(1 if json.load(open('$d/meta.json')).get('neutralised_by') else 0)" || { echo "| $id | - | - | neutralised by a later repair (see meta.json) |" >> $res.skip; continue; }
  prop=$(python3 -c "import json;print(json.load(open('$d/meta.json'))['property'])")
  for c in $(echo "$prop ${EXTRA[$id]}" | tr ' ' '\n' | sort -u); do echo "$id $prop $c" >> $jobs; done
done
cat $jobs | xargs -P $par -L 1 bash -c '
  id=$0; prop=$1; c=$2
  r=$(./tools/run_seeded.sh $id $c '$tier' 2>&1 | grep "^SEEDED")
  rc=$(echo "$r" | sed "s/.*rc=\([0-9]*\).*/\1/"); nv=$(echo "$r" | sed "s/.*violations=\([0-9]*\).*/\1/")
  out="MISSED"; [ "$rc" = "1" ] && out="detected ($nv violation classes)"; [ "$rc" = "2" ] && out="machinery error"; [ -z "$rc" ] && out="not run"
  echo "| $id | $prop | $c | $out |" >> '$res'
  echo "$id $c $out"
'
{ echo "| seed | property | check | result |"; echo "|---|---|---|---|"; sort $res $res.skip; } > seeded/KILL_MATRIX.md
rm -f $jobs $res $res.skip
