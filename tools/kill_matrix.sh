#!/bin/bash
# tools/kill_matrix.sh [tier] -- run every seeded change against the check of its property (plus overrides); writes seeded/KILL_MATRIX.md
tier=${1:-quick}
cd /verif
declare -A EXTRA=( [C01-w1]="C15" [C02-w1]="C17" [C04-w2]="C15" [C13-m2]="C15" [C11-m2]="C19" [C12-m2]="C04" [C04-m2]="C04" [regress-D3]="C10" [regress-D4]="C10" [regress-D1]="C02 C10" )
out=seeded/KILL_MATRIX.md
echo "| seed | property | check | result |" > $out.tmp; echo "|---|---|---|---|" >> $out.tmp
for d in seeded/*/; do
  id=$(basename $d)
  prop=$(python3 -c "import json;print(json.load(open('$d/meta.json'))['property'])")
  checks="$prop ${EXTRA[$id]}"
  for c in $(echo $checks | tr ' ' '\n' | sort -u); do
    r=$(./tools/run_seeded.sh $id $c $tier 2>&1 | grep "^SEEDED")
    rc=$(echo "$r" | sed 's/.*rc=\([0-9]*\).*/\1/'); nv=$(echo "$r" | sed 's/.*violations=\([0-9]*\).*/\1/')
    res="MISSED"; [ "$rc" = "1" ] && res="detected ($nv violation classes)"; [ "$rc" = "2" ] && res="machinery error"
    echo "| $id | $prop | $c | $res |" >> $out.tmp
    echo "$id $c $res"
  done
done
mv $out.tmp $out
