#!/bin/sh
# offline setup: nothing is built; verify the tools the checks need are present and every spec parses
cd "$(dirname "$0")/.." || exit 1
/venv/bin/python -c "import hypothesis, numpy, pint, numba, matplotlib" || exit 1
/venv/bin/python -c "import jsonschema" 2>/dev/null || /venv/bin/pip install -q --no-index --find-links /opt/veriftools/wheels jsonschema >/dev/null 2>&1 || true
command -v java >/dev/null || exit 1
test -f /opt/veriftools/tla/tla2tools.jar || exit 1
mkdir -p evidence
rc=0
for f in tla/*.tla; do
  [ -f "$f" ] || continue
  (cd tla && java -cp /opt/veriftools/tla/tla2tools.jar:/opt/veriftools/tla/CommunityModules-deps.jar tla2sany.SANY "$(basename "$f")" >/tmp/sany.$$ 2>&1) || { cat /tmp/sany.$$; rc=1; }
  grep -q "Semantic errors\|Parse Error\|Fatal errors" /tmp/sany.$$ && { cat /tmp/sany.$$; rc=1; }
done
rm -f /tmp/sany.$$
exit $rc
