#!/usr/bin/env python3
"""print the sub-agent brief for a property (property text + worktree only; nothing from /verif)"""
import json, sys
pid, wt = sys.argv[1], sys.argv[2]
n = sys.argv[3] if len(sys.argv) > 3 else "2"
for l in open("/verif/properties.jsonl"):
    d = json.loads(l)
    if d["id"] == pid: break
print(f"""You are helping to test a verification framework for the Python library osyris (loading/visualising RAMSES astrophysical AMR simulation outputs; unit-aware Array/Vector types; numba kernels). Your job: produce {n} DIFFERENT, realistic, subtle code changes (mutations) to osyris that BREAK the behavioural property below while the library still imports and the existing test suite still passes.

PROPERTY ({d['id']}: {d['title']})
Statement: {d['statement']}
Quantified over: {d['quantifier']['text']}
Code areas involved: {', '.join(d['anchors']['files'])}

WORKSPACE: a private git worktree of the repository at {wt} (detached HEAD). Work ONLY inside {wt}. Never touch /repo or /verif, never commit anywhere, do not read /verif. Scratch files go in {wt}/_scratch/ (a helper {wt}/_scratch/ramses_writer.py that writes small synthetic RAMSES outputs (amr/hydro/grav/part files, info file, descriptors) is there if you need on-disk inputs; read it before use, extend it freely).

HOW TO RUN THINGS (no network; nothing can be installed):
  cd {wt} && HOME=$(mktemp -d) MPLBACKEND=Agg PYTHONPATH={wt}/src /venv/bin/python -m pytest -q -p no:cacheprovider -x -q        # existing suite (192 tests) must still pass with each change
  cd {wt} && HOME=$(mktemp -d) MPLBACKEND=Agg PYTHONPATH={wt}/src /venv/bin/python _scratch/demo_<name>.py                       # your demonstration
  (A fresh HOME matters: osyris copies config/defaults.py to $HOME/.osyris/config_osyris.py on first import and then prefers the copy.)

WHAT KIND OF CHANGE: something a real developer could plausibly commit (a refactoring slip, an optimisation, a wrong boundary, a stale cache, a lost reset, a mis-ordered step, two sites that are each fine alone but wrong together), NOT something ordinary use exposes immediately. It must need something SPECIFIC to manifest: an unusual input or configuration, a particular multi-step sequence of calls, a particular dtype/unit/shape combination, a particular interleaving/thread count, etc. It must break the property as STATED (not merely change incidental behaviour), it must not break the import of osyris, and all 192 existing tests must still pass. Keep each change small (1-15 lines), in the osyris source under src/osyris only.

DELIVERABLES, for each mutation k = 1..{n}, written to {wt}/_scratch/out/m<k>/ :
  patch.diff   : `git -C {wt} diff -- src` output for exactly that mutation alone (relative to the original HEAD; make sure it applies with `git apply` to a clean checkout)
  demo.py      : a standalone program (run as shown above, using only osyris + numpy + stdlib, creating any input files it needs in a temp dir) that exits 0 and prints PASS on the ORIGINAL code and exits 1 and prints FAIL on the mutated code, by checking the property as stated
  meta.json    : {{"property": "{d['id']}", "title": short title of the mutation, "files": [...], "what_breaks": ..., "needs_to_manifest": what specific input/sequence/config is needed, "why_tests_pass": ...}}
Between mutations restore the tree with `git -C {wt} checkout -- src`. At the end leave the worktree clean (git checkout -- src) with only _scratch/ untracked.
Verify yourself before finishing: (1) original code: demo PASS; (2) patch applied: demo FAIL and the 192 tests pass. If the property ALREADY fails on the original code for the inputs you wanted to use (the library has some genuine defects), pick other inputs/another mutation where the original passes, and mention what you saw in meta.json under "observed_original_defects".
Final answer: a short list of the mutations (title, file, what is needed to manifest) and confirmation of the verification results. Be efficient.""")
