#!/usr/bin/env python3
"""tools/record_fix.py <key> <property> <commit> <what failed>  -- add a 'fixed' entry to known_findings.json and the
reverse diff of the fix as seeded/regress-<key> (must be detected by the check of the property)"""
import json, os, subprocess, sys
key, prop, commit, what = sys.argv[1:5]
h = subprocess.run(["git", "-C", "/repo", "log", "--format=%h", "-1", commit], capture_output=True, text=True).stdout.strip()
d = json.load(open("/verif/known_findings.json"))
d["findings"] = [f for f in d["findings"] if f["key"] != key]
d["findings"].append({"property": prop, "key": key, "status": "fixed", "commit": h, "signature": {}, "what_fails": f"fixed: property={prop} {h} {what}"})
json.dump(d, open("/verif/known_findings.json", "w"), indent=1)
os.makedirs(f"/verif/seeded/regress-{key}", exist_ok=True)
diff = subprocess.run(["git", "-C", "/repo", "diff", h, h + "~1", "--", "src"], capture_output=True, text=True).stdout
open(f"/verif/seeded/regress-{key}/patch.diff", "w").write(diff)
json.dump({"id": f"regress-{key}", "property": prop, "title": "reverse of the repair: " + what[:120], "origin": "reverse diff of the fix commit " + h}, open(f"/verif/seeded/regress-{key}/meta.json", "w"))
print("recorded", key, h)
