#!/venv/bin/python
"""Regenerate MANIFEST.json from harness/registry.py + tools/manifest_meta.json (single source of truth)."""
import json, os, sys
V = os.path.dirname(os.path.dirname(os.path.abspath(__file__)))
sys.path.insert(0, V)
from harness import registry
meta = json.load(open(os.path.join(V, "tools", "manifest_meta.json")))
props = [json.loads(l)["id"] for l in open(os.path.join(V, "properties.jsonl"))]
checks, na = [], []
for pid in props:
    if pid in registry.CHECKS and pid in meta["checks"]:
        m = meta["checks"][pid]
        checks.append({"property_id": pid, "quick_cmd": f"./check {pid} --tier quick", "thorough_cmd": f"./check {pid} --tier thorough",
                       "evidence_file": f"/verif/evidence/{pid}.json", "replay_cmd_template": f"./check {pid} --replay {{path}}",
                       "engine": m["engine"], "level_claimed": {"category": "model_checking", "text": m["text"], "design_ref": m["design_ref"]},
                       "level_note": m["note"], "technique": m["technique"]})
    else:
        na.append({"property_id": pid, "reason": meta["not_applicable"].get(pid, "check not built yet in this round (work in progress; see DESIGN.md section 5 for the plan)")})
man = {"version": 1, "setup_cmd": "./tools/setup.sh",
       "hooks": meta["hooks"], "engines": meta["engines"], "checks": checks, "notes": meta["notes"], "not_applicable": na}
json.dump(man, open(os.path.join(V, "MANIFEST.json"), "w"), indent=1)
import jsonschema
jsonschema.validate(man, json.load(open("/root/.vp/MANIFEST.schema.json")))
print("MANIFEST.json:", len(checks), "checks,", len(na), "not claimed")
