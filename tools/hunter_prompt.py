#!/usr/bin/env python3
"""print the brief of a defect-hunting sub-agent for a property (property text + worktree only; nothing from /verif)"""
import json, sys
pid, wt = sys.argv[1], sys.argv[2]
for l in open("/verif/properties.jsonl"):
    d = json.loads(l)
    if d["id"] == pid: break
print(f"""You are auditing the Python library osyris (loading/visualising RAMSES astrophysical AMR simulation outputs; unit-aware Array/Vector types; numba kernels) against ONE behavioural property. Your job: find inputs, configurations or call sequences for which the CURRENT code VIOLATES the property as stated - genuine defects of the library - and demonstrate each with a small standalone program. Do not change the library.

PROPERTY ({d['id']}: {d['title']})
Statement: {d['statement']}
Quantified over: {d['quantifier']['text']}
Code areas involved: {', '.join(d['anchors']['files'])}

WORKSPACE: a private git worktree of the repository at {wt} (detached HEAD). Work ONLY inside {wt}. Never touch /repo or /verif, never commit anywhere, do not read /verif. Scratch files go in {wt}/_scratch/ (a helper {wt}/_scratch/ramses_writer.py that writes small synthetic RAMSES outputs (amr/hydro/grav/part files, info file, descriptors) is there if you need on-disk inputs; read it before use, extend it freely).

HOW TO RUN (no network; nothing can be installed):
  cd {wt} && HOME=$(mktemp -d) MPLBACKEND=Agg PYTHONPATH={wt}/src /venv/bin/python _scratch/<name>.py
  (A fresh HOME matters: osyris copies config/defaults.py to $HOME/.osyris/config_osyris.py on first import and then prefers the copy.)
`git -C {wt} log --oneline --grep '^fix:'` lists defects that were ALREADY repaired recently - do not report those again; look where they did not look.

METHOD: read the code areas carefully with the quantifier in mind; for every dimension the property quantifies over (operand kinds, dtypes, shapes, unit families, keyword forms, orderings of calls, file layouts, selection forms, thread counts, window/orientation forms, ...) ask what the code does at the unusual-but-legitimate values, then TRY it. Prefer realistic usage (something a user of the library could plausibly write, or a file RAMSES could plausibly produce) over contrived abuse; malformed inputs, private APIs and things the statement explicitly leaves open (e.g. rounding-distance ties, sample points exactly on cell faces) do not count. Be precise about what the statement promises - a behaviour you merely dislike is not a violation.

DELIVERABLES in {wt}/_scratch/findings/ : for each confirmed violation k a file f<k>.py (standalone; uses only osyris + numpy + stdlib; creates any input files in a temp dir; prints what the property requires and what the code does; exits 1 when the violation is present, 0 when absent) and an entry in findings.json: a list of {{"id": "f<k>", "title": ..., "trigger": the specific input/sequence, "expected": ..., "observed": ..., "where": file:line of the cause, "suggested_fix": a minimal patch idea, "confidence_it_violates_the_statement": high|medium|low with one sentence of reasoning}}. Also list under "checked_ok" the dimensions you probed that behaved correctly (one line each) - this is valuable too.
If you find nothing after a serious search, say so and give the checked_ok list. Final answer: the findings (title, trigger, expected vs observed) and the checked_ok list, concisely. Be efficient: aim for depth on the riskiest code paths rather than breadth.""")
