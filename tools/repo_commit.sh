#!/bin/bash
# tools/repo_commit.sh <message-file>  -- run the pinned suite on /repo (guard off) and commit the working tree only if it passes
cd /repo || exit 2
out=$(env -u OSYRIS_VERIF HOME=$(mktemp -d) /venv/bin/python -m pytest -ra -q -p no:cacheprovider --timeout=900 --continue-on-collection-errors 2>&1 | tail -1)
echo "$out"
case "$out" in *"192 passed"*) ;; *) echo "NOT COMMITTED: the pinned suite does not pass"; exit 1;; esac
git commit -qa -F "$1" && git log --oneline | head -1
