#!/usr/bin/env python3
"""tools/km_from_log.py <log...>: rebuild seeded/KILL_MATRIX.md from the progress lines of tools/kill_matrix.sh
("<seed> <check> <outcome>"; later lines for the same (seed, check) replace earlier ones - re-runs after a strengthening)."""
import collections, glob, json, os, sys
res = collections.OrderedDict()
for f in sys.argv[1:]:
    for l in open(f):
        p = l.split()
        if len(p) >= 3 and os.path.isdir(f"/verif/seeded/{p[0]}") and p[1].startswith("C"):
            res[(p[0], p[1])] = " ".join(p[2:])
per = collections.OrderedDict()
for d in sorted(glob.glob("/verif/seeded/*/meta.json")):
    m = json.load(open(d)); sid = os.path.basename(os.path.dirname(d))
    per[sid] = {"prop": m["property"], "det": [], "miss": [], "other": []}
    if m.get("neutralised_by"):
        per[sid]["other"].append(("-", "neutralised by a later repair (see meta.json)"))
for (sid, chk), out in res.items():
    v = per[sid]
    (v["det"] if out.startswith("detected") else v["miss"] if out == "MISSED" else v["other"]).append((chk, out))
ndet = sum(1 for v in per.values() if v["det"])
nneu = sum(1 for v in per.values() if any("neutralised" in o for _, o in v["other"]))
nmiss = sum(1 for v in per.values() if not v["det"] and v["miss"] and not any("neutralised" in o for _, o in v["other"]))
nnot = sum(1 for v in per.values() if not v["det"] and not v["miss"] and not v["other"])
print(f"Seeded changes: {len(per)}; detected by at least one check: {ndet}; neutralised by a later repair: {nneu}; not detected: {nmiss} (each explained in DESIGN.md section 8); not run in this matrix: {nnot}.\n")
print("| seed | property | detected by | not detected by | note |\n|---|---|---|---|---|")
for sid, v in per.items():
    det = ", ".join(c + " (" + o.split("(")[1].split(" ")[0] + ")" for c, o in v["det"])
    print(f"| {sid} | {v['prop']} | {det} | {', '.join(c for c, _ in v['miss'])} | {'; '.join(o for _, o in v['other'])} |")
