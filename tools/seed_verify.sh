#!/bin/bash
# tools/seed_verify.sh <seed-id> <dir with patch.diff demo.py meta.json>
# Confirms in a scratch worktree of /repo HEAD: (1) demo passes without the patch, (2) patch applies, 192 tests pass,
# demo fails with it. Stores the seed under /verif/seeded/<id>/ on success. The worktree is removed afterwards.
set -u
id=$1; src=$2
wt=/tmp/seedwt.$$
git -C /repo worktree add -q --detach $wt HEAD || exit 2
trap 'git -C /repo worktree remove --force $wt >/dev/null 2>&1' EXIT
run() { (cd $wt && HOME=$(mktemp -d) MPLBACKEND=Agg PYTHONPATH=$wt/src "$@"); }
mkdir -p $wt/_scratch && cp $src/demo.py $wt/_scratch/demo.py
[ -f $(dirname $src)/../ramses_writer.py ] && cp $(dirname $src)/../ramses_writer.py $wt/_scratch/
[ -f $src/../../ramses_writer.py ] && cp $src/../../ramses_writer.py $wt/_scratch/
for f in $src/../../*.py; do [ -f "$f" ] && cp -n "$f" $wt/_scratch/; done
run timeout 600 /venv/bin/python _scratch/demo.py > /tmp/seed.$$.a 2>&1; a=$?
if ! git -C $wt apply --3way $src/patch.diff 2>/tmp/seed.$$.p; then
  if ! git -C $wt apply $src/patch.diff 2>>/tmp/seed.$$.p; then echo "SEED $id: patch does not apply to HEAD"; cat /tmp/seed.$$.p | tail -5; exit 1; fi
fi
run timeout 900 /venv/bin/python -m pytest -q -p no:cacheprovider -x > /tmp/seed.$$.t 2>&1; t=$?
run timeout 600 /venv/bin/python _scratch/demo.py > /tmp/seed.$$.b 2>&1; b=$?
echo "SEED $id: demo-without-patch rc=$a; tests-with-patch rc=$t ($(tail -1 /tmp/seed.$$.t)); demo-with-patch rc=$b"
if [ $a -eq 0 ] && [ $t -eq 0 ] && [ $b -ne 0 ]; then
  mkdir -p /verif/seeded/$id
  git -C $wt diff HEAD -- src > /verif/seeded/$id/patch.diff
  cp $src/demo.py /verif/seeded/$id/demo.py
  cp $src/meta.json /verif/seeded/$id/meta.src.json
  echo "SEED $id: confirmed, stored"
  rm -f /tmp/seed.$$.*
  exit 0
fi
tail -3 /tmp/seed.$$.a /tmp/seed.$$.b; rm -f /tmp/seed.$$.*
exit 1
