#!/usr/bin/env python3
"""tools/audit_brief.py <Cxx> <worktree>: brief of a second-round defect hunter = tools/hunter_prompt.py + what is already
known to lie outside the claims (DESIGN.md §6), so that reports concentrate on the claimed domain."""
import subprocess, sys, re
pid, wt = sys.argv[1], sys.argv[2]
base = subprocess.run([sys.executable, "/verif/tools/hunter_prompt.py", pid, wt], capture_output=True, text=True).stdout
base = re.sub(r" \(a helper \S+ramses_writer\.py that writes.*?(extend it freely|read it before use,[^)]*)\)", " (if you need on-disk RAMSES inputs write your own small writer)", base)
LOADER = ("mesh variables of a type other than double; the {variable: False} selection form (raises TypeError); a single-line descriptor file; the pre-2018 descriptor layout; "
          "ordering='bisection'; non-cubic coarse grids; levelmax > 18; selection predicates that return plain ndarrays (crash, no silent loss); tensor-like names (P_xx); "
          "meta counters of groups a call did not load; 1-D/2-D MHD outputs keeping surplus components as scalars; sink unit expressions with quotients or fractional powers")
OUT = {
 "C01": LOADER, "C12": LOADER, "C13": LOADER, "C14": LOADER, "C15": LOADER, "C04": LOADER,
 "C02": "pint Quantities or Python numbers on the LEFT of an operator; complex dtypes; offset/logarithmic units (degC, dB); float32 data whose conversion FACTOR lies outside the float32 range",
 "C03": "pixels whose sample point lies exactly on a cell face (either cell is accepted); data-size thresholds; rendering itself",
 "C05": "limits passed as pint Quantities; points exactly on an inner bin edge of a grid whose width is not a power of two",
 "C06": "members holding NaN in ==; size thresholds; ragged Vectors",
 "C10": "numpy functions with no rule in Array._wrap_numpy (np.where, np.clip, np.append, np.dot, np.cross, np.arctan2, np.float_power, np.diff(prepend=)); complex dtypes; a pint Quantity as FIRST argument; where= masks given as Arrays",
 "C11": "slabs thinner than half a pixel with no depth resolution given (ZeroDivisionError); pixels on cell faces; rendering",
 "C17": "read-only buffers; size thresholds; Array op= Vector (answered by Vector.__r<op>__); results not representable in the target dtype; division by zero",
 "C19": "call-level c=/s= for scatter layers on maps; rendering itself",
}
print(base)
print("\nADDITIONAL NOTES FOR THIS ROUND")
print("* An earlier audit round already went over this property; about forty-five defects were repaired since (see the git log). Look where a first pass would NOT look: combinations of two features, second and third calls on the same object, unusual-but-documented keyword forms, dtype/shape corners of realistic data, defaults that interact.")
print("* Crashes with a clear error message on malformed input are of little interest; SILENT wrong results, wrong units, lost or duplicated rows, state leaking between calls, and inputs modified behind the user's back are what matters.")
if pid in OUT:
    print(f"* Already known and outside the claimed domain (do not report): {OUT[pid]}.")
print("* Never use `git stash` (the stash is shared between worktrees); to get the original code back use `git checkout -- src`.")
