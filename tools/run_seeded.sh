#!/bin/bash
# tools/run_seeded.sh <seed-id> <check id> [tier]
# Runs a check against a seeded change. The change is applied to a scratch worktree of /repo HEAD (outside /repo and
# /verif) and the check is pointed at it with VERIF_REPO, so /repo itself stays untouched; the worktree is removed.
# (Equivalent to: git -C /repo apply <patch>; ./check ...; git -C /repo checkout -- .)
id=$1; chk=$2; tier=${3:-quick}
cd /verif
wt=/tmp/seedrun.$$
git -C /repo worktree add -q --detach $wt HEAD || exit 2
trap 'git -C /repo worktree remove --force $wt >/dev/null 2>&1' EXIT
git -C $wt apply /verif/seeded/$id/patch.diff || { echo "SEEDED $id: patch does not apply"; exit 2; }
VERIF_REPO=$wt timeout 3000 ./check $chk --tier $tier > /tmp/runseed.$$ 2>&1; rc=$?
nv=$(grep -c "^VIOLATION" /tmp/runseed.$$)
echo "SEEDED $id check=$chk tier=$tier rc=$rc violations=$nv"
grep -A1 "^VIOLATION" /tmp/runseed.$$ | head -4 | cut -c1-400
grep "MACHINERY" /tmp/runseed.$$ | head -3
[ "$rc" = "2" ] && { echo "=== $id $chk $(date)"; tail -30 /tmp/runseed.$$; } >> /tmp/runseed_errors.log
rm -f /tmp/runseed.$$
exit $rc
