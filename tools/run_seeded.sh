#!/bin/bash
# tools/run_seeded.sh <seed-id> <check id> [tier]   -- apply the seeded change to /repo, run the check, undo
id=$1; chk=$2; tier=${3:-quick}
cd /verif
git -C /repo diff --quiet || { echo "/repo has local changes"; exit 2; }
git -C /repo apply /verif/seeded/$id/patch.diff || exit 2
timeout 3000 ./check $chk --tier $tier > /tmp/runseed.$$ 2>&1; rc=$?
git -C /repo checkout -- .
nv=$(grep -c "^VIOLATION" /tmp/runseed.$$)
echo "SEEDED $id check=$chk tier=$tier rc=$rc violations=$nv"
grep -A1 "^VIOLATION" /tmp/runseed.$$ | head -6 | cut -c1-300
grep "MACHINERY" /tmp/runseed.$$ | head -3
rm -f /tmp/runseed.$$
exit $rc
