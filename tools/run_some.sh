#!/bin/bash
# tools/run_some.sh <tier> <ids...>
tier=$1; shift
cd "$(dirname "$0")/.."
for c in "$@"; do
  s=$(date +%s)
  timeout 7200 ./check $c --tier $tier > /tmp/runall.$c.log 2>&1; rc=$?
  e=$(date +%s)
  echo "$c tier=$tier rc=$rc wall=$((e-s))s $(grep -c '^VIOLATION' /tmp/runall.$c.log) violations; $(tail -1 /tmp/runall.$c.log | cut -c1-200)"
done
