---- MODULE Containers ----
(* Arrays and Vectors with identity, buffers and views; Datagroups and Datasets as aliasing,
   insertion-ordered dictionaries.  One action per public entry point of osyris.core.{array,vector,
   datagroup,dataset}.  Decides C06 (row alignment), C17 (aliasing contract), C20 (dictionary semantics).

   Objects live in `heap` (a sequence: object id = position), numpy buffers in `bufs`.  An object has
   1 (Array) or 2..3 (Vector) components, each a view [buf, idx] = positions inside a buffer.  Values are
   exact Rationals.  Ids are allocated deterministically (next free position) in an order stated by each
   action, so that the replayer can bind them to the Python objects the call returned. *)
EXTENDS Units, Integers, Sequences, FiniteSets, TLC, Json, SequencesExt, Functions

CONSTANTS MaxObj,      \* bound on heap size (allocation guard)
          MaxGrp,      \* bound on number of Datagroup objects
          Keys,        \* key alphabet
          Depth,       \* history length bound
          Acts,        \* enabled action names (configs focus on dict / rows / alias behaviour)
          IdxUse,      \* index kinds offered to index/slice in Next
          OpsUse,      \* in-place operators offered in Next
          ObjUse,      \* objects offered as target / right operand of in-place operators in Next ({} = all)
          GrpUse,      \* groups offered to the group actions in Next ({} = all)
          TiesPool     \* TRUE: the integer pool object 6 holds <<2, 0, 2>> (a sort key with ties) instead of <<2, 0, 1>>

VARIABLES heap, bufs, dgs, dss, res, hist, act
vars == <<heap, bufs, dgs, dss, res, hist, act>>
View == <<heap, bufs, dgs, dss, res, Len(hist)>>     \* observation variables stay out of the fingerprint
ViewPath == <<heap, bufs, dgs, dss, res, hist>>      \* ... unless every PATH is wanted: an implementation may remember how a state was reached (a cache)

NoRes == [t |-> "none"]
Exc(e) == [t |-> "exc", e |-> e]
ObjRes(o) == [t |-> "obj", o |-> o]
BoolRes(b) == [t |-> "bool", v |-> b]

\* ------------------------------------------------------------------ objects
Ulen(n) == U1(n)
mkArr(b, n, u, dt)  == [kind |-> "arr", comps |-> <<[buf |-> b, idx |-> [i \in 1..n |-> i]]>>, scalar |-> FALSE, unit |-> u, name |-> "", dt |-> dt]
mkScal(b, u, dt)    == [kind |-> "arr", comps |-> <<[buf |-> b, idx |-> <<1>>]>>, scalar |-> TRUE, unit |-> u, name |-> "", dt |-> dt]
mkVec(bs, n, u, dt) == [kind |-> "vec", comps |-> [c \in 1..Len(bs) |-> [buf |-> bs[c], idx |-> [i \in 1..n |-> i]]], scalar |-> FALSE, unit |-> u, name |-> "", dt |-> dt]
Ints(s) == [i \in 1..Len(s) |-> RInt(s[i])]

NComp(o)  == Len(heap[o].comps)
NRows(o)  == Len(heap[o].comps[1].idx)
ShapeOf(o) == IF heap[o].scalar THEN <<>> ELSE <<NRows(o)>>
CVals(h, b, o, c) == [i \in 1..Len(h[o].comps[c].idx) |-> b[h[o].comps[c].buf][h[o].comps[c].idx[i]]]
Vals(o, c) == CVals(heap, bufs, o, c)
IsArr(o) == heap[o].kind = "arr"
Cells(o) == UNION {{<<heap[o].comps[c].buf, heap[o].comps[c].idx[i]>> : i \in 1..NRows(o)} : c \in 1..NComp(o)}
Shares(a, b) == Cells(a) \cap Cells(b) # {}

\* pool of pre-existing objects (tokens distinct inside every component, unsorted, no ties)
Init ==
  /\ bufs = << Ints(<<3, 1, 2>>), Ints(<<20, 30, 10>>), Ints(<<7, 5>>), Ints(<<9>>),
               Ints(<<100, 300, 200>>), Ints(<<4, 6, 5>>), (IF TiesPool THEN Ints(<<2, 0, 2>>) ELSE Ints(<<2, 0, 1>>)), Ints(<<500, 700, 100>>), Ints(<<6, 2, 4>>),
               Ints(<<900, 900, 900>>),              \* constant rows: equal, element by element, to the 0-d object 4 after conversion - but of another shape
               Ints(<<600, 200, 400>>) >>            \* the float32 object 8 in another unit and in double precision: equal by content
  /\ heap = << mkArr(1, 3, U1("m"), "f8"), mkArr(2, 3, U1("s"), "f8"), mkArr(3, 2, U1("m"), "f8"), mkScal(4, U1("m"), "f8"),
               mkVec(<<5, 6>>, 3, U1("cm"), "f8"), mkArr(7, 3, Unit0, "i8"), mkArr(8, 3, U1("cm"), "f8"), mkArr(9, 3, U1("m"), "f4"), mkArr(10, 3, U1("cm"), "f8"), mkArr(11, 3, U1("cm"), "f8") >>
  /\ dgs = << [keys |-> <<>>, val |-> <<>>, name |-> "", parent |-> 0], [keys |-> <<>>, val |-> <<>>, name |-> "", parent |-> 0] >>
  /\ dss = << [keys |-> <<>>, val |-> <<>>, meta |-> <<>>] >>
  /\ res = NoRes /\ hist = <<>> /\ act = [op |-> "init"]
PoolObjs == 1..10

Step(a) == hist' = Append(hist, a) /\ act' = a
En(name) == name \in Acts /\ Len(hist) < Depth
NextOid == Len(heap) + 1
NextBid == Len(bufs) + 1
NextGid == Len(dgs) + 1

\* ------------------------------------------------------------------ ordered dictionaries
HasKey(d, k) == \E i \in 1..Len(d.keys) : d.keys[i] = k
SetInto(d, k, x) == [d EXCEPT !.keys = IF HasKey(d, k) THEN d.keys ELSE Append(d.keys, k),
                              !.val  = (k :> x) @@ d.val]
DRemove(d, k) == [d EXCEPT !.keys = SelectSeq(d.keys, LAMBDA x : x # k),
                           !.val  = [x \in (DOMAIN d.val) \ {k} |-> d.val[x]]]
DEmpty(d) == [d EXCEPT !.keys = <<>>, !.val = <<>>]
Members(g) == {dgs[g].val[k] : k \in DOMAIN dgs[g].val}
ShapeG(h, g) == IF g.keys = <<>> THEN <<>> ELSE (IF h[g.val[g.keys[1]]].scalar THEN <<>> ELSE <<Len(h[g.val[g.keys[1]]].comps[1].idx)>>)
ShapeH(h, o) == IF h[o].scalar THEN <<>> ELSE <<Len(h[o].comps[1].idx)>>

\* the shape gate: an insertion into a non-empty group must have the group's shape.
\* Replacing the *only* member by a value of another shape cannot break alignment: the statement of C06
\* leaves that outcome open, so both are allowed (the code rejects).
GateRejects(h, g, k, o) == g.keys # <<>> /\ ShapeG(h, g) # ShapeH(h, o)
SoleReplace(g, k) == g.keys = <<k>>

\* insert a sequence of (key, object) pairs one by one; stop at the first rejected one (what update() and
\* the constructor do).  Returns the new heap, group and whether every pair was accepted.
RECURSIVE ApplySets(_, _, _)
ApplySets(h, g, pairs) ==
  IF pairs = <<>> THEN [h |-> h, g |-> g, ok |-> TRUE]
  ELSE LET k == pairs[1][1]  o == pairs[1][2] IN
       IF GateRejects(h, g, k, o) THEN [h |-> h, g |-> g, ok |-> FALSE]
       ELSE ApplySets([h EXCEPT ![o].name = k], SetInto(g, k, o), Tail(pairs))

DgSet(g, k, o) ==
  /\ En("set") /\ UNCHANGED <<bufs, dss>>
  /\ \/ /\ ~GateRejects(heap, dgs[g], k, o) \/ SoleReplace(dgs[g], k)
        /\ Step([op |-> "set", g |-> g, k |-> k, o |-> o, alt |-> "ok"])
        /\ heap' = [heap EXCEPT ![o].name = k]
        /\ dgs' = [dgs EXCEPT ![g] = SetInto(dgs[g], k, o)]
        /\ res' = NoRes
     \/ /\ GateRejects(heap, dgs[g], k, o)
        /\ Step([op |-> "set", g |-> g, k |-> k, o |-> o, alt |-> "rej"])
        /\ res' = Exc("ValueError") /\ UNCHANGED <<heap, dgs>>

DgDel(g, k) ==
  /\ En("del") /\ Step([op |-> "del", g |-> g, k |-> k]) /\ UNCHANGED <<heap, bufs, dss>>
  /\ IF HasKey(dgs[g], k) THEN dgs' = [dgs EXCEPT ![g] = DRemove(dgs[g], k)] /\ res' = NoRes
                          ELSE res' = Exc("KeyError") /\ UNCHANGED dgs
DgPop(g, k) ==
  /\ En("pop") /\ Step([op |-> "pop", g |-> g, k |-> k]) /\ UNCHANGED <<heap, bufs, dss>>
  /\ IF HasKey(dgs[g], k) THEN dgs' = [dgs EXCEPT ![g] = DRemove(dgs[g], k)] /\ res' = ObjRes(dgs[g].val[k])
                          ELSE res' = Exc("KeyError") /\ UNCHANGED dgs
DgPopD(g, k) ==      \* pop(key, default): a dictionary never raises here
  /\ En("pop") /\ Step([op |-> "popd", g |-> g, k |-> k]) /\ UNCHANGED <<heap, bufs, dss>>
  /\ IF HasKey(dgs[g], k) THEN dgs' = [dgs EXCEPT ![g] = DRemove(dgs[g], k)] /\ res' = ObjRes(dgs[g].val[k])
                          ELSE res' = NoRes /\ UNCHANGED dgs
DgGet(g, k) ==       \* get(key) / get(key, default) and membership and []-lookup, observed together
  /\ En("get") /\ Step([op |-> "get", g |-> g, k |-> k]) /\ UNCHANGED <<heap, bufs, dss, dgs>>
  /\ res' = [t |-> "get", has |-> HasKey(dgs[g], k), o |-> IF HasKey(dgs[g], k) THEN dgs[g].val[k] ELSE 0,
             keys |-> dgs[g].keys, len |-> Len(dgs[g].keys)]
DgClear(g) ==
  /\ En("clear") /\ Step([op |-> "clear", g |-> g]) /\ UNCHANGED <<heap, bufs, dss>>
  /\ dgs' = [dgs EXCEPT ![g] = DEmpty(dgs[g])] /\ res' = NoRes
DgUpdate(g, pairs) ==
  /\ En("update") /\ Step([op |-> "update", g |-> g, pairs |-> pairs]) /\ UNCHANGED <<bufs, dss>>
  /\ LET r == ApplySets(heap, dgs[g], pairs) IN
       /\ heap' = r.h /\ dgs' = [dgs EXCEPT ![g] = r.g]
       /\ res' = IF r.ok THEN NoRes ELSE Exc("ValueError")
\* g.copy(): a new group into which the same member objects are re-inserted in order (so an object
\* stored under two keys ends up named after the later key); name "" and no parent.
DgCopy(g) ==
  /\ En("copy") /\ NextGid <= MaxGrp /\ Step([op |-> "copy", g |-> g]) /\ UNCHANGED <<bufs, dss>>
  /\ LET d == dgs[g]
         r == ApplySets(heap, [keys |-> <<>>, val |-> <<>>, name |-> "", parent |-> 0], [i \in 1..Len(d.keys) |-> <<d.keys[i], d.val[d.keys[i]]>>])
     IN /\ r.ok /\ heap' = r.h /\ dgs' = Append(dgs, r.g) /\ res' = [t |-> "grp", g |-> NextGid]

\* fresh copy of object o appended at the end of (h, b): own buffers holding exactly its rows
CopyObj(h, b, o) ==
  LET nb == Len(b)  n == Len(h[o].comps) IN
  [h |-> Append(h, [h[o] EXCEPT !.comps = [c \in 1..n |-> [buf |-> nb + c, idx |-> [i \in 1..Len(h[o].comps[c].idx) |-> i]]]]),
   b |-> b \o [c \in 1..n |-> CVals(h, b, o, c)]]
RECURSIVE CopyObjs(_, _, _)
CopyObjs(h, b, os) == IF os = <<>> THEN [h |-> h, b |-> b]
                      ELSE LET r == CopyObj(h, b, os[1]) IN CopyObjs(r.h, r.b, Tail(os))
\* distinct member objects of a group in order of first appearance
DistinctMembers(d) == LET all == [i \in 1..Len(d.keys) |-> d.val[d.keys[i]]]
                      IN SelectSeq([i \in 1..Len(all) |-> IF \E j \in 1..(i-1) : all[j] = all[i] THEN 0 ELSE all[i]], LAMBDA x : x # 0)
PosIn(s, x) == CHOOSE i \in 1..Len(s) : s[i] = x
\* copy.deepcopy(g): every distinct member copied once (sharing between keys is preserved, sharing of
\* buffers between different objects is not); names kept
DgDeepCopy(g) ==
  /\ En("deepcopy") /\ dgs[g].parent = 0 /\ Step([op |-> "deepcopy", g |-> g]) /\ UNCHANGED dss
  /\ LET d == dgs[g]  dm == DistinctMembers(d)  r == CopyObjs(heap, bufs, dm) IN
       /\ NextGid <= MaxGrp /\ Len(heap) + Len(dm) <= MaxObj
       /\ heap' = r.h /\ bufs' = r.b
       /\ dgs' = Append(dgs, [d EXCEPT !.val = [k \in DOMAIN d.val |-> Len(heap) + PosIn(dm, d.val[k])]])
       /\ res' = [t |-> "grp", g |-> NextGid]

\* ------------------------------------------------------------------ indexing
IdxKinds == {"i0", "im1", "imn", "iout", "s02", "s_2", "srev", "s1_", "mask", "maskArr", "maskBad", "maskNone",
             "ia", "iaArr", "perm", "faArr", "vecIdx"}
Odd(n) == SelectSeq([i \in 1..n |-> i], LAMBDA i : i % 2 = 1)
OkRows(rows, scalar, view) == [ok |-> TRUE, rows |-> rows, scalar |-> scalar, view |-> view]
Bad(e) == [ok |-> FALSE, e |-> e]
\* source rows (1-based) selected by index kind on a member with n rows; view = numpy returns a view
Src(kind, n) ==
  CASE kind = "i0"      -> IF n >= 1 THEN OkRows(<<1>>, TRUE, FALSE) ELSE Bad("IndexError")
    [] kind = "im1"     -> IF n >= 1 THEN OkRows(<<n>>, TRUE, FALSE) ELSE Bad("IndexError")
    [] kind = "imn"     -> IF n >= 1 THEN OkRows(<<1>>, TRUE, FALSE) ELSE Bad("IndexError")       \* the integer -n: the first row, counted from the end
    [] kind = "iout"    -> Bad("IndexError")
    [] kind = "s02"     -> OkRows([i \in 1..(IF n < 2 THEN n ELSE 2) |-> i], FALSE, TRUE)
    [] kind = "s_2"     -> OkRows(Odd(n), FALSE, TRUE)
    [] kind = "srev"    -> OkRows([i \in 1..n |-> n + 1 - i], FALSE, TRUE)
    [] kind = "s1_"     -> OkRows([i \in 1..(IF n >= 1 THEN n - 1 ELSE 0) |-> i + 1], FALSE, TRUE)
    [] kind \in {"mask", "maskArr"} -> OkRows(Odd(n), FALSE, FALSE)
    [] kind = "maskBad" -> Bad("IndexError")
    [] kind = "maskNone" -> OkRows(<<>>, FALSE, FALSE)
    [] kind \in {"ia", "iaArr"} -> IF n >= 1 THEN OkRows(<<n, n, 1>>, FALSE, FALSE) ELSE Bad("IndexError")
    [] kind = "perm"    -> OkRows([i \in 1..n |-> IF i < n THEN i + 1 ELSE 1], FALSE, FALSE)
    [] kind = "faArr"   -> Bad("TypeError")
    [] kind = "vecIdx"  -> Bad("ValueError")
SrcOf(kind, o) == IF heap[o].scalar THEN Bad("IndexError") ELSE Src(kind, NRows(o))

\* g[idx] on a Datagroup: the abstract description of the returned group
DgIndex(g, kind) ==
  /\ En("index") /\ Step([op |-> "index", g |-> g, kind |-> kind]) /\ UNCHANGED <<heap, bufs, dgs, dss>>
  /\ LET d == dgs[g]
         bad == SelectSeq(d.keys, LAMBDA k : ~SrcOf(kind, d.val[k]).ok)
     IN IF bad # <<>> THEN res' = Exc(SrcOf(kind, d.val[bad[1]]).e)
        ELSE res' = [t |-> "dg", keys |-> d.keys,
                     mem |-> [k \in DOMAIN d.val |->
                        LET o == d.val[k]  s == SrcOf(kind, o) IN
                        [kind |-> heap[o].kind, scalar |-> s.scalar, unit |-> Sparse(heap[o].unit), name |-> k, dt |-> heap[o].dt,
                         c |-> [c \in 1..NComp(o) |-> [i \in 1..Len(s.rows) |-> Vals(o, c)[s.rows[i]]]],
                         shares |-> IF s.view /\ s.rows # <<>> THEN o ELSE 0]]]

\* o[idx] on an Array or Vector, result kept on the heap (so that later in-place updates can go through it)
Slice(o, kind) ==
  /\ En("slice") /\ Step([op |-> "slice", o |-> o, kind |-> kind]) /\ UNCHANGED <<dgs, dss>>
  /\ LET s == SrcOf(kind, o) IN
     IF ~s.ok THEN res' = Exc(s.e) /\ UNCHANGED <<heap, bufs>>
     ELSE /\ NextOid <= MaxObj
          /\ IF s.view
             THEN /\ heap' = Append(heap, [heap[o] EXCEPT !.comps = [c \in 1..NComp(o) |-> [buf |-> heap[o].comps[c].buf, idx |-> [i \in 1..Len(s.rows) |-> heap[o].comps[c].idx[s.rows[i]]]]]])
                  /\ UNCHANGED bufs
             ELSE /\ heap' = Append(heap, [heap[o] EXCEPT !.scalar = s.scalar,
                                           !.comps = [c \in 1..NComp(o) |-> [buf |-> NextBid + c - 1, idx |-> [i \in 1..Len(s.rows) |-> i]]]])
                  /\ bufs' = bufs \o [c \in 1..NComp(o) |-> [i \in 1..Len(s.rows) |-> Vals(o, c)[s.rows[i]]]]
          /\ res' = ObjRes(NextOid)
\* o.copy() and copy.deepcopy(o) coincide for Arrays and Vectors
Copy(o, how) ==
  /\ En("ocopy") /\ NextOid <= MaxObj /\ Step([op |-> "ocopy", o |-> o, how |-> how]) /\ UNCHANGED <<dgs, dss>>
  /\ LET r == CopyObj(heap, bufs, o) IN heap' = r.h /\ bufs' = r.b
  /\ res' = ObjRes(NextOid)

\* o.to(unit): the same quantity in another unit.  Same unit: an Array returns ITSELF (no copy); a Vector returns a new Vector
\* over the same component buffers.  Otherwise a fresh object with converted values and an empty name; incompatible: raises.
ToUnits == <<U1("m"), U1("cm"), U1("s")>>
ObjTo(o, ui) ==
  /\ En("to") /\ Step([op |-> "to", o |-> o, u |-> ui]) /\ UNCHANGED <<dgs, dss>>
  /\ LET u == ToUnits[ui] IN
     IF ~Compatible(heap[o].unit, u) THEN res' = Exc("Error") /\ UNCHANGED <<heap, bufs>>
     ELSE IF heap[o].unit = u /\ IsArr(o) THEN res' = ObjRes(o) /\ UNCHANGED <<heap, bufs>>
     ELSE IF heap[o].unit = u THEN
          /\ NextOid <= MaxObj
          /\ IF heap[o].scalar
             THEN LET r == CopyObj(heap, bufs, o) IN heap' = [r.h EXCEPT ![Len(r.h)].name = ""] /\ bufs' = r.b
             ELSE heap' = Append(heap, [heap[o] EXCEPT !.name = ""]) /\ UNCHANGED bufs
          /\ res' = ObjRes(NextOid)
     ELSE /\ NextOid <= MaxObj
          /\ LET k == Ratio(heap[o].unit, u)  nc == NComp(o) IN
             /\ heap' = Append(heap, [heap[o] EXCEPT !.unit = u, !.name = "", !.dt = IF heap[o].dt = "i8" THEN "f8" ELSE heap[o].dt,     \* integers become floats, floats keep their precision
                                       !.comps = [c \in 1..nc |-> [buf |-> Len(bufs) + c, idx |-> [i \in 1..NRows(o) |-> i]]]])
             /\ bufs' = bufs \o [c \in 1..nc |-> [i \in 1..NRows(o) |-> RMul(Vals(o, c)[i], k)]]
          /\ res' = ObjRes(NextOid)

\* v.x / v.y / v.z = <a fresh Array holding the values of src>: a component is replaced (or a third one added) after
\* construction; every later operation must see the current components.  Only well-formed assignments are generated
\* (the attribute is not validated by the code).
VecSet(o, c, src) ==
  /\ En("vset") /\ ~IsArr(o) /\ IsArr(src) /\ c \in 1..3 /\ c <= NComp(o) + 1
  /\ ~heap[o].scalar /\ ~heap[src].scalar /\ NRows(src) = NRows(o) /\ heap[src].unit = heap[o].unit /\ heap[src].dt = heap[o].dt
  /\ Step([op |-> "vset", o |-> o, c |-> c, src |-> src]) /\ UNCHANGED <<dgs, dss>>
  /\ bufs' = Append(bufs, Vals(src, 1))
  /\ heap' = [heap EXCEPT ![o].comps = [j \in 1..(IF c > NComp(o) THEN c ELSE NComp(o)) |->
                                          IF j = c THEN [buf |-> NextBid, idx |-> [i \in 1..NRows(o) |-> i]] ELSE heap[o].comps[j]]]
  /\ res' = NoRes

\* ------------------------------------------------------------------ sorting
\* argsort without ties (pool values are distinct inside a component)
SortPerm(s) == LET n == Len(s)
                   rank(i) == Cardinality({j \in 1..n : RLess(s[j], s[i])}) + 1
               IN [r \in 1..n |-> CHOOSE i \in 1..n : rank(i) = r]
NoTies(s) == \A i, j \in 1..Len(s) : i # j => s[i] # s[j]
\* every key gets a fresh object holding the selected rows (fancy indexing copies), re-inserted under its key
Permute(g, p) ==
  LET d == dgs[g]  n == Len(d.keys)
      base(j) == IF j = 1 THEN Len(bufs) ELSE Len(bufs) + 0
      RECURSIVE Build(_, _, _)
      Build(h, b, j) == IF j > n THEN [h |-> h, b |-> b]
                        ELSE LET o == d.val[d.keys[j]]  nc == Len(heap[o].comps) IN
                             Build(Append(h, [heap[o] EXCEPT !.name = d.keys[j],
                                              !.comps = [c \in 1..nc |-> [buf |-> Len(b) + c, idx |-> [i \in 1..Len(p) |-> i]]]]),
                                   b \o [c \in 1..nc |-> [i \in 1..Len(p) |-> Vals(o, c)[p[i]]]], j + 1)
      r == Build(heap, bufs, 1)
  IN /\ heap' = r.h /\ bufs' = r.b
     /\ dgs' = [dgs EXCEPT ![g].val = [k \in DOMAIN d.val |-> Len(heap) + PosIn(d.keys, k)]]
DgSortByKey(g, k) ==
  /\ En("sortkey") /\ HasKey(dgs[g], k) /\ ShapeG(heap, dgs[g]) # <<>>
  /\ IsArr(dgs[g].val[k]) /\ NoTies(Vals(dgs[g].val[k], 1))
  /\ Len(heap) + Len(dgs[g].keys) <= MaxObj
  /\ Step([op |-> "sortkey", g |-> g, k |-> k]) /\ UNCHANGED dss
  /\ Permute(g, SortPerm(Vals(dgs[g].val[k], 1))) /\ res' = NoRes
\* a key with ties: ANY permutation that orders the key is a correct answer (the statement asks for one permutation applied
\* to every member, not for a particular tie-break).  Offered as the last step of a history only, so that no later step
\* depends on which permutation the implementation chose.
SortingPerms(s) == {p \in [1..Len(s) -> 1..Len(s)] : (\A i, j \in 1..Len(s) : i # j => p[i] # p[j])
                                                    /\ \A i \in 1..(Len(s) - 1) : ~RLess(s[p[i + 1]], s[p[i]])}
DgSortByKeyTies(g, k) ==
  /\ En("sortkey") /\ HasKey(dgs[g], k) /\ ShapeG(heap, dgs[g]) # <<>> /\ Len(hist) = Depth - 1
  /\ IsArr(dgs[g].val[k]) /\ ~NoTies(Vals(dgs[g].val[k], 1))
  /\ Len(heap) + Len(dgs[g].keys) <= MaxObj
  /\ \E p \in SortingPerms(Vals(dgs[g].val[k], 1)) :
        /\ Step([op |-> "sortkey", g |-> g, k |-> k, alt |-> p]) /\ UNCHANGED dss
        /\ Permute(g, p) /\ res' = NoRes
DgSortByIdx(g, p) ==       \* p: 1-based source rows, a permutation or a selection with repeats of the same length
  /\ En("sortidx") /\ dgs[g].keys # <<>> /\ ShapeG(heap, dgs[g]) = <<Len(p)>>
  /\ Len(heap) + Len(dgs[g].keys) <= MaxObj
  /\ Step([op |-> "sortidx", g |-> g, p |-> p]) /\ UNCHANGED dss
  /\ Permute(g, p) /\ res' = NoRes

\* ------------------------------------------------------------------ in-place operators (C17)
Ops == {"add", "sub", "mul", "div"}
RApply(op, x, y) == CASE op = "add" -> RAdd(x, y) [] op = "sub" -> RSub(x, y) [] op = "mul" -> RMul(x, y) [] op = "div" -> RDiv(x, y)
\* rhs is an object id (Array or Vector) or the Python number 2
RhsUnit(rhs) == IF rhs = 0 THEN Unit0 ELSE heap[rhs].unit
RhsScalar(rhs) == rhs = 0 \/ heap[rhs].scalar
RhsVal(rhs, c, i) == IF rhs = 0 THEN RInt(2) ELSE LET v == Vals(rhs, IF heap[rhs].kind = "vec" THEN c ELSE 1) IN IF heap[rhs].scalar \/ Len(v) = 1 THEN v[1] ELSE v[i]
Strict(op) == op \in {"add", "sub"}
IOpOutcome(op, o, rhs) ==
  LET u == heap[o].unit  v == RhsUnit(rhs) IN
  IF rhs # 0 /\ heap[rhs].kind = "vec" /\ IsArr(o) THEN "skip"      \* Array op= Vector is answered by Vector.__r<op>__ (a new Vector): not an in-place update
  ELSE IF rhs # 0 /\ heap[rhs].kind = "vec" /\ NComp(rhs) # NComp(o) THEN "raise"        \* component count mismatch
  ELSE IF Strict(op) /\ ~Compatible(u, v) THEN "raise"
  ELSE IF ~RhsScalar(rhs) /\ (heap[o].scalar \/ (NRows(rhs) # NRows(o) /\ NRows(rhs) # 1)) THEN "raise"   \* numpy: the right operand must broadcast to the shape of x
  ELSE IF op = "div" /\ \E c \in 1..NComp(o), i \in 1..NRows(o) : RIsZero(RhsVal(rhs, c, i)) THEN "skip"
  ELSE IF heap[o].dt = "i8" /\ (op = "div" \/ (rhs # 0 /\ heap[rhs].dt # "i8") \/ (Compatible(u, v) /\ u # v)) THEN "skip"   \* not representable in x's integer dtype (a float32 target accepts every float result)
  ELSE "ok"
\* converted right-hand value: strict ops convert, mul/div convert when compatible
ConvFactor(op, o, rhs) == IF Compatible(heap[o].unit, RhsUnit(rhs)) THEN Ratio(RhsUnit(rhs), heap[o].unit) ELSE ROne
ResUnit(op, o, rhs) ==
  LET u == heap[o].unit  v == IF Compatible(u, RhsUnit(rhs)) THEN u ELSE RhsUnit(rhs) IN
  CASE op \in {"add", "sub"} -> u [] op = "mul" -> UMul(u, v) [] op = "div" -> UDiv(u, v)
\* q: the right operand (an Array) is handed over as a pint Quantity wrapping the very buffer of rhs - same meaning,
\* and in particular the buffer of rhs must come out untouched
IOpQ(op, o, rhs, q) ==
  /\ En("iop")
  /\ LET outcome == IOpOutcome(op, o, rhs) IN
     /\ outcome # "skip"
     /\ Step([op |-> "iop", f |-> op, o |-> o, rhs |-> rhs, q |-> q]) /\ UNCHANGED <<dgs, dss>>
     /\ IF outcome = "raise" THEN res' = Exc("Error") /\ UNCHANGED <<heap, bufs>>
        ELSE LET k == ConvFactor(op, o, rhs)
                 nc == NComp(o)  nr == NRows(o)
                 newval(c, i) == RApply(op, Vals(o, c)[i], RMul(RhsVal(rhs, c, i), k))
                 \* all right-hand values are read from the pre-state (numpy resolves overlap), the
                 \* writes go through the views of x
                 RECURSIVE Write(_, _, _)
                 Write(b, c, i) == IF c > nc THEN b
                                   ELSE IF i > nr THEN Write(b, c + 1, 1)
                                   ELSE Write([b EXCEPT ![heap[o].comps[c].buf][heap[o].comps[c].idx[i]] = newval(c, i)], c, i + 1)
             IN \* x is updated where it is and stays the same object - an Array and a Vector alike.  (A Vector answering with a
                \* NEW Vector over the same component buffers satisfies the statement for one update only: the next update
                \* through the new object changes the shared values but not the unit held by the references to the old one.)
                /\ bufs' = Write(bufs, 1, 1)
                /\ heap' = [heap EXCEPT ![o].unit = ResUnit(op, o, rhs)]
                /\ res' = ObjRes(o)
\* x op= x.<c>: the right operand is one of x's own component Arrays (v /= v.x).  The statement makes no exception for a
\* right operand that aliases x: the result is x op y with y as it was before the update.
RECURSIVE WriteCells(_, _, _, _, _)
WriteCells(b, o, nv, c, i) == IF c > NComp(o) THEN b
                              ELSE IF i > NRows(o) THEN WriteCells(b, o, nv, c + 1, 1)
                              ELSE WriteCells([b EXCEPT ![heap[o].comps[c].buf][heap[o].comps[c].idx[i]] = nv[c][i]], o, nv, c, i + 1)
\* c = 4: the right operand is a Vector built from x's own components in rotated order (Vector(x=v.y, y=v.z, z=v.x))
IOpSelf(op, o, c) ==
  /\ En("iop") /\ ~IsArr(o) /\ (c \in 1..NComp(o) \/ (c = 4 /\ NComp(o) > 1))
  /\ LET src(cc) == IF c = 4 THEN (cc % NComp(o)) + 1 ELSE c IN
     ~(op = "div" /\ (heap[o].dt = "i8" \/ \E cc \in 1..NComp(o), i \in 1..NRows(o) : RIsZero(Vals(o, src(cc))[i])))
  /\ Step([op |-> "iop", f |-> op, o |-> o, rhs |-> 0 - c, q |-> FALSE]) /\ UNCHANGED <<dgs, dss>>
  /\ LET u == heap[o].unit
         src(cc) == IF c = 4 THEN (cc % NComp(o)) + 1 ELSE c
         nv == [cc \in 1..NComp(o) |-> [i \in 1..NRows(o) |-> RApply(op, Vals(o, cc)[i], Vals(o, src(cc))[i])]]
     IN /\ bufs' = WriteCells(bufs, o, nv, 1, 1)
        /\ heap' = [heap EXCEPT ![o].unit = CASE op \in {"add", "sub"} -> u [] op = "mul" -> UMul(u, u) [] op = "div" -> UDiv(u, u)]
        /\ res' = ObjRes(o)
\* a Vector is updated component after component; a right operand that aliases x (another view of its components) still
\* contributes the values it had before the update (RhsVal reads the pre-state)
IOpArgsOk(o, rhs) == TRUE
IOp(op, o, rhs) == IOpQ(op, o, rhs, FALSE)

\* ------------------------------------------------------------------ equality (C20)
\* element-wise equality after conversion of the right operand into the left operand's unit
MemEq(a, b) ==
  \* (a 0-d member and a one-row member correspond element by element: the pinned suite compares dg[1] with one-row groups)
  IF heap[a].kind # heap[b].kind \/ NComp(a) # NComp(b) \/ ~Compatible(heap[a].unit, heap[b].unit) \/ NRows(a) # NRows(b)
  THEN "undef"        \* no element-wise comparison exists: must not compare equal (False or an exception)
  ELSE IF \A c \in 1..NComp(a), i \in 1..NRows(a) : Vals(a, c)[i] = RMul(Vals(b, c)[i], Ratio(heap[b].unit, heap[a].unit))
       THEN "eq" ELSE "ne"
DgEq(g, h) ==
  /\ En("eq") /\ Step([op |-> "eq", g |-> g, h |-> h]) /\ UNCHANGED <<heap, bufs, dgs, dss>>
  /\ LET a == dgs[g]  b == dgs[h] IN
     IF DOMAIN a.val # DOMAIN b.val THEN res' = BoolRes(FALSE)
     ELSE IF \E k \in DOMAIN a.val : MemEq(a.val[k], b.val[k]) = "undef" THEN res' = [t |-> "noteq"]      \* False or raises
     ELSE res' = BoolRes(\A k \in DOMAIN a.val : MemEq(a.val[k], b.val[k]) = "eq")

\* ------------------------------------------------------------------ Dataset
Ds == 1..Len(dss)
DsSet(d, k, g) ==
  /\ En("dsset") /\ Step([op |-> "dsset", d |-> d, k |-> k, g |-> g]) /\ UNCHANGED <<heap, bufs>>
  /\ dss' = [dss EXCEPT ![d] = SetInto(dss[d], k, g)]
  /\ dgs' = [dgs EXCEPT ![g].name = k, ![g].parent = d] /\ res' = NoRes
DsSetBad(d, k, o) ==     \* anything that is not a Datagroup is refused
  /\ En("dsset") /\ Step([op |-> "dssetbad", d |-> d, k |-> k, o |-> o]) /\ UNCHANGED <<heap, bufs, dgs, dss>>
  /\ res' = Exc("TypeError")
DsUpdateBad(d, k, o) ==  \* update() goes through the same gate as item assignment
  /\ En("dsupdate") /\ Step([op |-> "dsupdatebad", d |-> d, k |-> k, o |-> o]) /\ UNCHANGED <<heap, bufs, dgs, dss>>
  /\ res' = Exc("TypeError")
DsDel(d, k) ==
  /\ En("dsdel") /\ Step([op |-> "dsdel", d |-> d, k |-> k]) /\ UNCHANGED <<heap, bufs, dgs>>
  /\ IF HasKey(dss[d], k) THEN dss' = [dss EXCEPT ![d] = DRemove(dss[d], k)] /\ res' = NoRes
                          ELSE res' = Exc("KeyError") /\ UNCHANGED dss
DsPop(d, k) ==
  /\ En("dspop") /\ Step([op |-> "dspop", d |-> d, k |-> k]) /\ UNCHANGED <<heap, bufs, dgs>>
  /\ IF HasKey(dss[d], k) THEN dss' = [dss EXCEPT ![d] = DRemove(dss[d], k)] /\ res' = [t |-> "grp", g |-> dss[d].val[k]]
                          ELSE res' = Exc("KeyError") /\ UNCHANGED dss
DsPopD(d, k) ==
  /\ En("dspop") /\ Step([op |-> "dspopd", d |-> d, k |-> k]) /\ UNCHANGED <<heap, bufs, dgs>>
  /\ IF HasKey(dss[d], k) THEN dss' = [dss EXCEPT ![d] = DRemove(dss[d], k)] /\ res' = [t |-> "grp", g |-> dss[d].val[k]]
                          ELSE res' = NoRes /\ UNCHANGED dss
DsGet(d, k) ==
  /\ En("dsget") /\ Step([op |-> "dsget", d |-> d, k |-> k]) /\ UNCHANGED <<heap, bufs, dgs, dss>>
  /\ res' = [t |-> "get", has |-> HasKey(dss[d], k), o |-> IF HasKey(dss[d], k) THEN dss[d].val[k] ELSE 0,
             keys |-> dss[d].keys, len |-> Len(dss[d].keys)]
DsMeta(d, mk) ==
  /\ En("dsmeta") /\ Step([op |-> "dsmeta", d |-> d, mk |-> mk]) /\ UNCHANGED <<heap, bufs, dgs>>
  /\ dss' = [dss EXCEPT ![d].meta = IF \E i \in 1..Len(@) : @[i] = mk THEN @ ELSE Append(@, mk)] /\ res' = NoRes
DsClear(d) ==
  /\ En("dsclear") /\ Step([op |-> "dsclear", d |-> d]) /\ UNCHANGED <<heap, bufs, dgs>>
  /\ dss' = [dss EXCEPT ![d] = [keys |-> <<>>, val |-> <<>>, meta |-> <<>>]] /\ res' = NoRes
DsUpdate(d, pairs) ==
  /\ En("dsupdate") /\ Step([op |-> "dsupdate", d |-> d, pairs |-> pairs]) /\ UNCHANGED <<heap, bufs>>
  /\ LET RECURSIVE Go(_, _, _)
         Go(ds, gs, ps) == IF ps = <<>> THEN [ds |-> ds, gs |-> gs]
                           ELSE Go(SetInto(ds, ps[1][1], ps[1][2]), [gs EXCEPT ![ps[1][2]].name = ps[1][1], ![ps[1][2]].parent = d], Tail(ps))
         r == Go(dss[d], dgs, pairs)
     IN dss' = [dss EXCEPT ![d] = r.ds] /\ dgs' = r.gs /\ res' = NoRes
\* d.copy(): a new Dataset into which the same groups are re-inserted (they are re-parented to the copy),
\* meta copied
DsCopy(d) ==
  /\ En("dscopy") /\ Len(dss) < 3 /\ Step([op |-> "dscopy", d |-> d]) /\ UNCHANGED <<heap, bufs>>
  /\ dss' = Append(dss, dss[d])
  /\ dgs' = [g \in 1..Len(dgs) |-> IF \E k \in DOMAIN dss[d].val : dss[d].val[k] = g
                                    THEN [dgs[g] EXCEPT !.parent = Len(dss) + 1,
                                          !.name = LET ks == SelectSeq(dss[d].keys, LAMBDA k : dss[d].val[k] = g) IN ks[Len(ks)]]
                                    ELSE dgs[g]]
  /\ res' = [t |-> "ds", d |-> Len(dss) + 1]
\* copy.deepcopy(d): groups, members and meta all fresh; sharing inside the dataset preserved
DsDeepCopy(d) ==
  /\ En("dsdeepcopy") /\ Len(dss) < 3 /\ Step([op |-> "dsdeepcopy", d |-> d])
  /\ LET gl == LET all == [i \in 1..Len(dss[d].keys) |-> dss[d].val[dss[d].keys[i]]]
               IN SelectSeq([i \in 1..Len(all) |-> IF \E j \in 1..(i-1) : all[j] = all[i] THEN 0 ELSE all[i]], LAMBDA x : x # 0)
         allm == LET RECURSIVE Cat(_) Cat(i) == IF i > Len(gl) THEN <<>> ELSE DistinctMembers(dgs[gl[i]]) \o Cat(i + 1) IN Cat(1)
         dm == SelectSeq([i \in 1..Len(allm) |-> IF \E j \in 1..(i-1) : allm[j] = allm[i] THEN 0 ELSE allm[i]], LAMBDA x : x # 0)
         r == CopyObjs(heap, bufs, dm)
     IN /\ Len(dgs) + Len(gl) <= MaxGrp /\ Len(heap) + Len(dm) <= MaxObj
        /\ heap' = r.h /\ bufs' = r.b
        /\ dgs' = dgs \o [i \in 1..Len(gl) |-> [dgs[gl[i]] EXCEPT !.parent = IF dgs[gl[i]].parent = d THEN Len(dss) + 1 ELSE -1,   \* -1: a hidden copy of whichever other dataset the group was last inserted into
                                                 !.val = [k \in DOMAIN dgs[gl[i]].val |-> Len(heap) + PosIn(dm, dgs[gl[i]].val[k])]]]
        /\ dss' = Append(dss, [dss[d] EXCEPT !.val = [k \in DOMAIN dss[d].val |-> Len(dgs) + PosIn(gl, dss[d].val[k])]])
        /\ res' = [t |-> "ds", d |-> Len(dss) + 1]

\* ------------------------------------------------------------------ next-state relation
Gs == IF GrpUse = {} THEN 1..Len(dgs) ELSE GrpUse \cap 1..Len(dgs)
Os == 1..Len(heap)
OsUse == IF ObjUse = {} THEN Os ELSE ObjUse \cap Os        \* the objects offered to the object actions of Next
PairSeqs == {<<<<k, o>>>> : k \in Keys, o \in PoolObjs} \cup {<<<<"a", o1>>, <<"b", o2>>>> : o1 \in {1, 5}, o2 \in {2, 3, 4}}
            \cup {<<<<"b", o2>>, <<"a", o1>>>> : o1 \in {1, 5}, o2 \in {2, 7}}        \* the same items inserted in the other order
Next ==
 /\ Len(hist) < Depth
 /\
  \/ \E g \in Gs, k \in Keys, o \in (IF ObjUse = {} THEN Os ELSE ObjUse \cap Os) : DgSet(g, k, o)
  \/ \E g \in Gs, k \in Keys : DgDel(g, k) \/ DgPop(g, k) \/ DgPopD(g, k) \/ DgGet(g, k)
  \/ \E g \in Gs : DgClear(g) \/ DgCopy(g) \/ DgDeepCopy(g)
  \/ \E g \in Gs, ps \in PairSeqs : DgUpdate(g, ps)
  \/ \E g \in Gs, kind \in IdxUse : DgIndex(g, kind)
  \/ \E o \in OsUse, kind \in IdxUse \ {"maskArr", "iaArr"} : Slice(o, kind)
  \/ \E o \in OsUse, how \in {"copy", "deepcopy"} : Copy(o, how)
  \/ \E o \in (IF ObjUse = {} THEN Os ELSE ObjUse \cap Os), ui \in 1..3 : ObjTo(o, ui)
  \/ \E o \in OsUse, c \in 1..3, src \in OsUse : VecSet(o, c, src)
  \/ \E g \in Gs, k \in Keys : DgSortByKey(g, k) \/ DgSortByKeyTies(g, k)
  \/ \E g \in Gs, p \in {<<3, 1, 2>>, <<2, 1>>, <<2, 2, 1>>} : DgSortByIdx(g, p)
  \/ \E op \in OpsUse, o \in (IF ObjUse = {} THEN Os ELSE ObjUse \cap Os), rhs \in {0} \cup (IF ObjUse = {} THEN Os ELSE ObjUse \cap Os) :
         IOpArgsOk(o, rhs) /\ \E q \in (IF rhs # 0 /\ IsArr(rhs) THEN BOOLEAN ELSE {FALSE}) : IOpQ(op, o, rhs, q)
  \/ \E op \in OpsUse, o \in (IF ObjUse = {} THEN Os ELSE ObjUse \cap Os), c \in 1..4 : IOpSelf(op, o, c)
  \/ \E g, h \in Gs : DgEq(g, h)
  \/ \E d \in Ds, k \in Keys, g \in Gs : DsSet(d, k, g)
  \/ \E d \in Ds, k \in Keys : DsSetBad(d, k, 1) \/ DsUpdateBad(d, k, 5) \/ DsDel(d, k) \/ DsPop(d, k) \/ DsPopD(d, k) \/ DsGet(d, k)
  \/ \E d \in Ds : DsMeta(d, "t") \/ DsClear(d) \/ DsCopy(d) \/ DsDeepCopy(d)
  \/ \E d \in Ds, g1, g2 \in Gs : DsUpdate(d, <<<<"a", g1>>, <<"b", g2>>>>)
Spec == Init /\ [][Next]_vars

\* exploration bound: keeps the exact arithmetic inside TLC's 32-bit integers
SmallValues == \A b \in 1..Len(bufs) : \A i \in 1..Len(bufs[b]) : Abs(bufs[b][i][1]) < 30000 /\ bufs[b][i][2] < 30000 /\ Abs(bufs[b][i][3]) < 8

\* ------------------------------------------------------------------ properties
\* C06: all members of a group have one shape, at every state
Aligned == \A g \in Gs : \A k \in DOMAIN dgs[g].val : ShapeOf(dgs[g].val[k]) = ShapeG(heap, dgs[g])
KeysConsistent == /\ \A g \in Gs : {dgs[g].keys[i] : i \in 1..Len(dgs[g].keys)} = DOMAIN dgs[g].val /\ Cardinality(DOMAIN dgs[g].val) = Len(dgs[g].keys)
                  /\ \A d \in Ds : {dss[d].keys[i] : i \in 1..Len(dss[d].keys)} = DOMAIN dss[d].val /\ Cardinality(DOMAIN dss[d].val) = Len(dss[d].keys)
HeapOk == /\ \A o \in Os : \A c \in 1..NComp(o) : heap[o].comps[c].buf \in 1..Len(bufs) /\ \A i \in 1..NRows(o) : heap[o].comps[c].idx[i] \in 1..Len(bufs[heap[o].comps[c].buf])
          /\ \A g \in Gs : Members(g) \subseteq Os
          /\ \A d \in Ds : \A k \in DOMAIN dss[d].val : dss[d].val[k] \in Gs
\* C06: an index result is ONE row selection applied to every member (stated independently of DgIndex):
\* there is a sequence p of source rows with result[m][c] = source[m][c] o p for all members and components
RowSels(n, m) == UNION {[1..j -> 1..n] : j \in {m}}
OneRowSelection ==
  (res.t = "dg" /\ act.op = "index") =>
     LET g == act.g  d == dgs[g] IN
     \/ d.keys = <<>>
     \/ LET n == NRows(d.val[d.keys[1]])  m == Len(res.mem[d.keys[1]].c[1]) IN
        \E p \in RowSels(n, m) : \A k \in DOMAIN d.val : \A c \in 1..NComp(d.val[k]) :
             res.mem[k].c[c] = [r \in 1..m |-> Vals(d.val[k], c)[p[r]]]
\* C06: after a sort every member is the same permutation of what it was (action property)
SortIsOnePermutation ==
  [][act'.op \in {"sortkey", "sortidx"} =>
       LET g == act'.g  d == dgs[g]  n == NRows(d.val[d.keys[1]]) IN
       \E p \in RowSels(n, n) : \A k \in DOMAIN d.val : \A c \in 1..NComp(d.val[k]) :
            CVals(heap', bufs', dgs'[g].val[k], c) = [r \in 1..n |-> Vals(d.val[k], c)[p[r]]]
            /\ heap'[dgs'[g].val[k]].unit = heap[d.val[k]].unit /\ heap'[dgs'[g].val[k]].name = k]_vars
\* C06/C20: a rejected call leaves everything as it was
RejectedChangesNothing ==
  [][(res'.t = "exc" /\ act'.op \in {"set", "del", "pop", "index", "slice", "iop", "dsset", "dssetbad", "dsupdatebad", "dsdel", "dspop"})
        => <<heap', bufs', dgs', dss'>> = <<heap, bufs, dgs, dss>>]_vars
\* C20: every accepted insertion renames the item to its key
NameIsKey == [][(act'.op = "set" /\ res'.t = "none") => heap'[act'.o].name = act'.k /\ dgs'[act'.g].val[act'.k] = act'.o]_vars
DsNameParent == [][(act'.op = "dsset") => dgs'[act'.g].name = act'.k /\ dgs'[act'.g].parent = act'.d]_vars
\* C17: an Array updated in place is the same object over the same buffer cells; objects sharing no cell with it keep their values
InPlaceSameObject ==
  [][(act'.op = "iop" /\ res'.t = "obj") => res'.o = act'.o /\ heap'[act'.o].comps = heap[act'.o].comps /\ Len(heap') = Len(heap)]_vars
InPlaceFrame ==
  [][(act'.op = "iop" /\ res'.t = "obj") =>
       \A p \in Os \ {act'.o} : ~Shares(p, act'.o) => (\A c \in 1..NComp(p) : CVals(heap', bufs', p, c) = Vals(p, c)) /\ heap'[p].unit = heap[p].unit]_vars
\* C17: copies own all their cells, views share cells with their source
CopiesAreFresh ==
  [][(act'.op = "ocopy") => \A p \in Os : LET n == Len(heap') IN
        {<<heap'[n].comps[c].buf, heap'[n].comps[c].idx[i]>> : c \in 1..Len(heap'[n].comps), i \in 1..Len(heap'[n].comps[1].idx)} \cap Cells(p) = {}]_vars
ShallowCopySharesMembers ==
  [][(act'.op = "copy") => dgs'[Len(dgs')].val = dgs[act'.g].val /\ dgs'[Len(dgs')].keys = dgs[act'.g].keys]_vars
DeepCopyDisjoint ==
  [][(act'.op = "deepcopy") => LET ng == dgs'[Len(dgs')] IN
        \A k \in DOMAIN ng.val : ng.val[k] > Len(heap) /\ \A p \in Os : heap'[ng.val[k]].comps[1].buf # heap[p].comps[1].buf]_vars

\* ------------------------------------------------------------------ emission (S -> C binding)
PObj(o) == [k |-> heap[o].kind, c |-> heap[o].comps, s |-> heap[o].scalar, u |-> Sparse(heap[o].unit), n |-> heap[o].name, dt |-> heap[o].dt]
PObj2(h, o) == [k |-> h[o].kind, c |-> h[o].comps, s |-> h[o].scalar, u |-> Sparse(h[o].unit), n |-> h[o].name, dt |-> h[o].dt]
Proj(h, b, g, d, r) == [heap |-> [o \in 1..Len(h) |-> PObj2(h, o)], bufs |-> b,
                        dgs |-> [i \in 1..Len(g) |-> [keys |-> g[i].keys, val |-> [j \in 1..Len(g[i].keys) |-> g[i].val[g[i].keys[j]]], name |-> g[i].name, parent |-> g[i].parent]],
                        dss |-> [i \in 1..Len(d) |-> [keys |-> d[i].keys, val |-> [j \in 1..Len(d[i].keys) |-> d[i].val[d[i].keys[j]]], meta |-> d[i].meta]],
                        res |-> r]
\* only what the action changed is emitted; the replayer rebuilds full expected states along `hist`
Changed(old, new) == {i \in 1..Len(new) : i > Len(old) \/ new[i] # old[i]}
PGrp(g) == [keys |-> g.keys, val |-> [j \in 1..Len(g.keys) |-> g.val[g.keys[j]]], name |-> g.name, parent |-> g.parent]
PDs(d) == [keys |-> d.keys, val |-> [j \in 1..Len(d.keys) |-> d.val[d.keys[j]]], meta |-> d.meta]
Delta == [dh |-> [o \in Changed(heap, heap') |-> PObj2(heap', o)], db |-> [b \in Changed(bufs, bufs') |-> bufs'[b]],
          dg |-> [g \in Changed(dgs, dgs') |-> PGrp(dgs'[g])], dd |-> [d \in Changed(dss, dss') |-> PDs(dss'[d])], res |-> res']
Emit == PrintT(ToJson([h |-> hist, a |-> act', d |-> Delta]))
\* simulation mode: the complete projected state after every step of a random behaviour (cfg: INVARIANT EmitState)
EmitState == hist = <<>> \/ PrintT(ToJson([h |-> hist, s |-> Proj(heap, bufs, dgs, dss, res)]))
InitJson == ToJson(Proj(heap, bufs, dgs, dss, res))
====
