---- MODULE Hilbert ----
(* The 3-D Hilbert curve used by RAMSES for its domain decomposition (12-state diagram), and the CPU
   pre-selection osyris derives from it.  Pure operators; HilbertSound.tla model-checks the soundness of the
   pre-selection, RamsesLayout.tla uses Key for the ownership of octs in Hilbert-ordered outputs. *)
EXTENDS Integers, Sequences, FiniteSets

\* state diagram: for state cs and input octant sd, SD[1 + sd + 16 cs] is the next state, SD[1 + sd + 8 + 16 cs] the output digit
SD == <<1,2,3,2,4,5,3,5,0,1,3,2,7,6,4,5,2,6,0,7,8,8,0,7,0,7,1,6,3,4,2,5,0,9,10,9,1,1,11,11,0,3,7,4,1,2,6,5,6,0,6,11,9,0,9,8,2,3,1,0,5,4,6,7,11,11,0,7,5,9,0,7,4,3,5,2,7,0,6,1,4,4,8,8,0,6,10,6,6,5,1,2,7,4,0,3,5,7,5,3,1,1,11,11,4,7,3,0,5,6,2,1,6,1,6,10,9,4,9,10,6,7,5,4,1,0,2,3,10,3,1,1,10,3,5,9,2,5,3,4,1,6,0,7,4,4,8,8,2,7,2,3,2,1,5,6,3,0,4,7,7,2,11,2,7,5,8,5,4,5,7,6,3,2,0,1,10,3,2,6,10,3,4,4,6,1,7,0,5,2,4,3>>
Bit(n, i) == (n \div (2 ^ i)) % 2
NextState(cs, sd) == SD[1 + sd + 16 * cs]
Digit(cs, sd)     == SD[1 + sd + 8 + 16 * cs]
\* key of the integer point (x, y, z) with bl bits per coordinate (only the low bl bits of a coordinate matter)
RECURSIVE HK(_, _, _, _, _)
HK(x, y, z, i, cs) == IF i < 0 THEN 0 ELSE
  LET sd == 4 * Bit(x, i) + 2 * Bit(y, i) + Bit(z, i) IN Digit(cs, sd) * (8 ^ i) + HK(x, y, z, i - 1, NextState(cs, sd))
Key(x, y, z, bl) == IF bl = 0 THEN 0 ELSE HK(x, y, z, bl - 1, 0)

\* ---- lemmas (checked by TLC for BL bits; StatePermutes gives the prefix property for every bit length by induction)
StatePermutes == \A cs \in 0..11 : {Digit(cs, sd) : sd \in 0..7} = 0..7 /\ \A sd \in 0..7 : NextState(cs, sd) \in 0..11
Pts(bl) == (0..(2 ^ bl - 1)) \X (0..(2 ^ bl - 1)) \X (0..(2 ^ bl - 1))
Bijective(bl) == Cardinality({Key(p[1], p[2], p[3], bl) : p \in Pts(bl)}) = 8 ^ bl
Prefix(bl) == \A k \in 0..bl : \A p \in Pts(bl) :
                LET s == 2 ^ (bl - k)
                    base == Key(p[1] \div s, p[2] \div s, p[3] \div s, k) * (8 ^ (bl - k))
                IN Key(p[1], p[2], p[3], bl) >= base /\ Key(p[1], p[2], p[3], bl) < base + 8 ^ (bl - k)
AbsI(a) == IF a < 0 THEN -a ELSE a
Continuous(bl) == LET tab == [p \in Pts(bl) |-> Key(p[1], p[2], p[3], bl)]
                      inv(k) == CHOOSE p \in Pts(bl) : tab[p] = k
                  IN \A k \in 0..(8 ^ bl - 2) : LET p == inv(k) q == inv(k + 1) IN AbsI(p[1] - q[1]) + AbsI(p[2] - q[2]) + AbsI(p[3] - q[3]) = 1

\* ---- the pre-selection algorithm (osyris.io.hilbert._get_cpu_list), on integers.
\* box: per axis <<a, b>> = first and last finest-level cell index (0..N-1) whose centre satisfies the predicate
\* (N = 2^levelmax cells per axis), lmax = deepest level of the load, bk = bound keys (ncpu + 1, non-decreasing)
Max3(a, b, c) == IF a >= b /\ a >= c THEN a ELSE IF b >= c THEN b ELSE c
\* first level in 1..lmax whose cell is strictly smaller than the largest box extent, else lmax
SearchLevel(box, levelmax, lmax) ==
  LET dmax == Max3(box[1][2] - box[1][1] + 1, box[2][2] - box[2][1] + 1, box[3][2] - box[3][1] + 1)
      Sm == {il \in 1..lmax : 2 ^ (levelmax - il) < dmax}
  IN IF Sm = {} THEN lmax ELSE CHOOSE il \in Sm : \A j \in Sm : il <= j
Cubes(box, levelmax, lmax) ==
  LET bl == SearchLevel(box, levelmax, lmax) - 1   md == 2 ^ bl   N == 2 ^ levelmax
      i0 == (box[1][1] * md) \div N  j0 == (box[2][1] * md) \div N  k0 == (box[3][1] * md) \div N
  IN [bl |-> bl, cubes |-> IF bl = 0 THEN {<<0, 0, 0>>} ELSE {<<i0 + di, j0 + dj, k0 + dk>> : di \in 0..1, dj \in 0..1, dk \in 0..1}]
\* cpus (1-based) whose key interval meets the key block of a search cube, the way the loops compute them
CpuListOf(box, levelmax, lmax, bk) ==
  LET cb == Cubes(box, levelmax, lmax)
      ncpu == Len(bk) - 1
      dkey == 8 ^ (levelmax + 1 - cb.bl)
      range(q) == LET omin == Key(q[1], q[2], q[3], cb.bl) * dkey   omax == omin + dkey
                      mins == {i \in 1..ncpu : bk[i] <= omin /\ bk[i + 1] > omin}
                      maxs == {i \in 1..ncpu : bk[i] < omax /\ bk[i + 1] >= omax}
                      cmin == IF mins = {} THEN 1 ELSE CHOOSE i \in mins : \A j \in mins : j <= i
                      cmax == IF maxs = {} THEN 1 ELSE CHOOSE i \in maxs : \A j \in maxs : j <= i
                  IN cmin..cmax
  IN UNION {range(q) : q \in cb.cubes}
\* Leaves COARSER than the search cubes: such a leaf (level l <= bl) contains a point of the box, and its oct is owned by
\* the cpu holding the key of the centre of the oct's father cell (level l-1).  At every level p < bl a box spans at most
\* two cells per axis, so the candidate father cells are the <= 8 cells of level p holding the box corners.
AncestorPts(box, levelmax, lmax) ==
  LET bl == SearchLevel(box, levelmax, lmax) - 1   N == 2 ^ levelmax   KB == levelmax + 1 IN
  UNION {LET nc == 2 ^ p   h == 2 ^ (KB - p - 1)
             cells(d) == {(box[d][1] * nc) \div N, IF ((box[d][2] + 1) * nc) \div N > nc - 1 THEN nc - 1 ELSE ((box[d][2] + 1) * nc) \div N}
         IN {<<(2 * i + 1) * h, (2 * j + 1) * h, (2 * k + 1) * h>> : i \in cells(1), j \in cells(2), k \in cells(3)} : p \in 0..(bl - 1)}
OwnerOfKey(k, bk) == {i \in 1..(Len(bk) - 1) : bk[i] <= k /\ k < bk[i + 1]}
\* the repaired list: key blocks of the search cubes plus the owners of the candidate father cells
CpuListRepaired(box, levelmax, lmax, bk) ==
  CpuListOf(box, levelmax, lmax, bk) \cup UNION {OwnerOfKey(Key(p[1], p[2], p[3], levelmax + 1), bk) : p \in AncestorPts(box, levelmax, lmax)}

\* what any sound pre-selection must contain for leaves not coarser than the search cubes: every cpu with a non-empty
\* key interval that meets the key block of a search cube
\* (the info file prints the keys with 15 digits: the LAST one may come out below the end of the key space, the last
\* cpu nevertheless holds every key up to the end)
MustHave(box, levelmax, lmax, bk) ==
  LET cb == Cubes(box, levelmax, lmax)   dkey == 8 ^ (levelmax + 1 - cb.bl)   md == 2 ^ cb.bl
      ncpu == Len(bk) - 1   tot == 8 ^ (levelmax + 1)
      hi(i) == IF i = ncpu /\ bk[i + 1] < tot THEN tot ELSE bk[i + 1] IN
  {i \in 1..ncpu : bk[i] < hi(i) /\ \E q \in cb.cubes :
       LET omin == Key(q[1], q[2], q[3], cb.bl) * dkey IN bk[i] < omin + dkey /\ hi(i) > omin}
====
