---- MODULE Direction ----
(* Map orientations (C18) in exact integer vector algebra.  For every accepted way of naming an orientation the
   specification gives UNNORMALISED integer vectors N, U, V such that the basis used by the map must be
   n = N/|N|, u = U/|U|, v = V/|V|:
     letter / triple : the named axes;
     normal vector n : U = perpendicular(n) (two branches: z = 0 and z # 0), V = n x U;
     "top"           : N = L, the mass-weighted angular momentum of the cells within (dx+dy)/4 of the origin, U, V as for a normal;
     "side"          : the top basis rolled (n <- u, u <- v, v <- n), so that L lies in the image plane.
   TLC enumerates the scenarios and checks, exactly, orthogonality, right-handedness (U x V = lambda N, lambda > 0) and n || request. *)
EXTENDS Integers, Sequences, FiniteSets, TLC, Json
Dot(a, b) == a[1] * b[1] + a[2] * b[2] + a[3] * b[3]
Cross(a, b) == <<a[2] * b[3] - a[3] * b[2], a[3] * b[1] - a[1] * b[3], a[1] * b[2] - a[2] * b[1]>>
Sgn(x) == IF x > 0 THEN 1 ELSE IF x < 0 THEN -1 ELSE 0
AbsI(x) == IF x < 0 THEN -x ELSE x
Axis(c) == CASE c = "x" -> <<1, 0, 0>> [] c = "y" -> <<0, 1, 0>> [] c = "z" -> <<0, 0, 1>>
\* perpendicular(n): (-y, x, 0) when z = 0, else (1, 1, -(x+y)/z) scaled by |z| to stay integral
Perp(n) == IF n[3] = 0 THEN <<-n[2], n[1], 0>> ELSE <<AbsI(n[3]), AbsI(n[3]), -Sgn(n[3]) * (n[1] + n[2])>>
FromNormal(n) == [n |-> n, u |-> Perp(n), v |-> Cross(n, Perp(n))]
Roll(b) == [n |-> b.u, u |-> b.v, v |-> b.n]
Letters == {"x", "y", "z"}
LetterBasis(c) == CASE c = "x" -> [n |-> Axis("x"), u |-> Axis("y"), v |-> Axis("z")]
                    [] c = "y" -> [n |-> Axis("y"), u |-> Axis("z"), v |-> Axis("x")]
                    [] c = "z" -> [n |-> Axis("z"), u |-> Axis("x"), v |-> Axis("y")]
Triples == {<<"x","y","z">>, <<"x","z","y">>, <<"y","x","z">>, <<"y","z","x">>, <<"z","x","y">>, <<"z","y","x">>}
TripleBasis(t) == [n |-> Axis(t[1]), u |-> Axis(t[2]), v |-> Axis(t[3])]
Normals == {n \in (-3..3) \X (-3..3) \X (-3..3) : n # <<0, 0, 0>>}
\* discs: cells (position, velocity, mass) around an origin; angular momentum of those strictly inside the sphere of radius^2 = r2
Discs == { [cells |-> << [p |-> <<2,0,0>>, v |-> <<0,3,0>>, m |-> 1], [p |-> <<-2,0,0>>, v |-> <<0,-3,0>>, m |-> 2], [p |-> <<0,2,1>>, v |-> <<-1,0,0>>, m |-> 1], [p |-> <<9,9,9>>, v |-> <<5,-7,3>>, m |-> 50] >>, o |-> <<0,0,0>>, r2 |-> 25, o2 |-> <<8,8,8>>],
           [cells |-> << [p |-> <<5,1,0>>, v |-> <<0,0,2>>, m |-> 3], [p |-> <<3,1,2>>, v |-> <<1,1,0>>, m |-> 1], [p |-> <<4,4,0>>, v |-> <<-2,0,1>>, m |-> 2], [p |-> <<4,1,10>>, v |-> <<9,9,9>>, m |-> 9] >>, o |-> <<4,1,0>>, r2 |-> 16, o2 |-> <<4,1,8>>],
           [cells |-> << [p |-> <<1,0,0>>, v |-> <<0,0,1>>, m |-> 1], [p |-> <<0,1,0>>, v |-> <<0,0,-1>>, m |-> 1], [p |-> <<0,0,1>>, v |-> <<1,1,0>>, m |-> 4] >>, o |-> <<0,0,0>>, r2 |-> 4, o2 |-> <<0,0,1>>],
           \* a disc lying in the xy plane: its angular momentum is exactly along z (and along -z for the mirrored one)
           [cells |-> << [p |-> <<2,0,0>>, v |-> <<0,3,0>>, m |-> 1], [p |-> <<-2,0,0>>, v |-> <<0,-3,0>>, m |-> 2], [p |-> <<8,8,9>>, v |-> <<0,5,-7>>, m |-> 50] >>, o |-> <<0,0,0>>, r2 |-> 25, o2 |-> <<8,8,8>>],
           [cells |-> << [p |-> <<2,0,0>>, v |-> <<0,-3,0>>, m |-> 1], [p |-> <<-2,0,0>>, v |-> <<0,3,0>>, m |-> 2], [p |-> <<8,8,9>>, v |-> <<0,5,-7>>, m |-> 50] >>, o |-> <<0,0,0>>, r2 |-> 25, o2 |-> <<8,8,8>>] }
RECURSIVE LSum(_, _, _)
LSum(cells, o, r2) == IF cells = <<>> THEN <<0, 0, 0>> ELSE
   LET c == Head(cells)  r == <<c.p[1] - o[1], c.p[2] - o[2], c.p[3] - o[3]>>  rest == LSum(Tail(cells), o, r2)
       l == Cross(<<r[1] * c.m, r[2] * c.m, r[3] * c.m>>, c.v)
   IN IF Dot(r, r) < r2 THEN <<rest[1] + l[1], rest[2] + l[2], rest[3] + l[3]>> ELSE rest
AngMom(d) == LSum(d.cells, d.o, d.r2)
VARIABLE sc
Init == sc = [kind |-> "none"]
Next == sc.kind = "none" /\
        \/ \E c \in Letters : sc' = [kind |-> "letter", arg |-> c, b |-> LetterBasis(c), req |-> Axis(c)]
        \/ \E t \in Triples : sc' = [kind |-> "triple", arg |-> t, b |-> TripleBasis(t), req |-> Axis(t[1])]
        \/ \E n \in Normals : sc' = [kind |-> "normal", arg |-> n, b |-> FromNormal(n), req |-> n]
        \/ \E n \in Normals : n[1] + n[2] + n[3] \in {1, 2} /\ sc' = [kind |-> "vectorbasis", arg |-> n, b |-> FromNormal(n), req |-> n]
        \* the same data and window asked again around a second origin (req2): the answer depends on the origin, not on the history
        \/ \E d \in Discs : sc' = [kind |-> "top", arg |-> d, b |-> FromNormal(AngMom(d)), req |-> AngMom(d), req2 |-> LSum(d.cells, d.o2, d.r2)]
        \/ \E d \in Discs : sc' = [kind |-> "side", arg |-> d, b |-> Roll(FromNormal(AngMom(d))), req |-> AngMom(d), req2 |-> LSum(d.cells, d.o2, d.r2)]
Nonzero(a) == a # <<0, 0, 0>>
Parallel(a, b) == Cross(a, b) = <<0, 0, 0>> /\ Dot(a, b) > 0
Orthogonal == sc.kind = "none" \/ (Dot(sc.b.n, sc.b.u) = 0 /\ Dot(sc.b.n, sc.b.v) = 0 /\ Dot(sc.b.u, sc.b.v) = 0 /\ Nonzero(sc.b.n) /\ Nonzero(sc.b.u) /\ Nonzero(sc.b.v))
NormalIsRequest == sc.kind \in {"none", "side"} \/ Parallel(sc.b.n, sc.req)
RightHanded == sc.kind \notin {"normal", "top", "vectorbasis"} \/ Parallel(Cross(sc.b.u, sc.b.v), sc.b.n)
SideInPlane == sc.kind # "side" \/ (Dot(sc.req, sc.b.n) = 0 /\ Parallel(sc.b.v, sc.req))
SecondOriginDiffers == sc.kind \notin {"top", "side"} \/ (Nonzero(sc.req2) /\ ~Parallel(sc.req, sc.req2))
Emit == sc.kind = "none" \/ PrintT(ToJson(sc))
====
