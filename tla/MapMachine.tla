---- MODULE MapMachine ----
(* The map pipeline as exact point location (C03, C11).  Geometry lives on an integer lattice: the domain is
   [0,32]^ndim, level-1 cells have half-size 8, level-2 cells 4, level-3 cells 2 (finest edge = 4 lattice units).
   A scenario is a mesh (an AMR tiling, possibly with holes = cells that are not loaded), an origin, an orthonormal
   basis (integer vectors over a common denominator: axis permutations with signs, 3-4-5 rotations), a window and a
   resolution, optionally a thickness with a depth resolution.  For every sample point origin + x_i u + y_j v + z_k n
   the specification states WHICH loaded cell contains it (strictly inside), that none does (masked), or that the point
   lies on a cell face (any touching cell is allowed).  The pre-selection heuristics and the pixel footprint of the
   implementation must be conservative refinements of this: they never appear here.
   TLC enumerates the scenario lattice in Next, checks the structural invariants of every mesh and emits the table of
   containing cells; the harness builds the real Datagroup, calls osyris.map (several thread counts) and compares
   every pixel of every layer. *)
EXTENDS Integers, Sequences, FiniteSets, TLC, Json

\* ---- meshes
Bit(i, d) == (i \div (2 ^ (d - 1))) % 2
\* children of a cell [c, h]: 2^nd cells of half-size h/2
Child(cell, i, nd) == [c |-> [d \in 1..3 |-> IF d <= nd THEN cell.c[d] + (2 * Bit(i, d) - 1) * (cell.h \div 2) ELSE 0], h |-> cell.h \div 2]
Root(i, nd) == [c |-> [d \in 1..3 |-> IF d <= nd THEN 8 + 16 * Bit(i, d) ELSE 0], h |-> 8]
NK(nd) == 2 ^ nd
\* a mesh: level-1 cells r1 are refined; inside refined cell p, child q is refined again when <<p,q>> \in r2; cells in holes are not loaded
Cells(m) ==
  LET nd == m.nd
      l1 == {Root(i, nd) : i \in (0..NK(nd) - 1) \ m.r1}
      l2 == {Child(Root(p, nd), q, nd) : p \in m.r1, q \in 0..NK(nd) - 1} \ {Child(Root(pq[1], nd), pq[2], nd) : pq \in m.r2}
      l3 == UNION {{Child(Child(Root(pq[1], nd), pq[2], nd), r, nd) : r \in 0..NK(nd) - 1} : pq \in m.r2}
  IN l1 \cup l2 \cup l3
Order(S) == LET RECURSIVE Go(_, _)
                Go(T, acc) == IF T = {} THEN acc ELSE
                   LET x == CHOOSE x \in T : \A y \in T : <<x.c[1], x.c[2], x.c[3], x.h>> = <<y.c[1], y.c[2], y.c[3], y.h>> \/
                        (x.c[1] < y.c[1] \/ (x.c[1] = y.c[1] /\ (x.c[2] < y.c[2] \/ (x.c[2] = y.c[2] /\ x.c[3] <= y.c[3])))) IN Go(T \ {x}, Append(acc, x))
            IN Go(S, <<>>)
Loaded(m) == LET all == Order(Cells(m)) IN SelectSeq(all, LAMBDA x : \A k \in m.holes \cap (1..Len(all)) : all[k] # x)
Meshes == {[nd |-> nd, r1 |-> r1, r2 |-> r2, holes |-> h] :
             nd \in {2, 3}, r1 \in {{}, {0}, {0, 3}, {1, 2}}, r2 \in {{}, {<<0, 1>>}, {<<0, 2>>, <<3, 0>>}}, h \in {{}, {2}, {1, 5}}}
WellFormedMesh(m) == m.r2 \subseteq {pq \in (0..7) \X (0..7) : pq[1] \in m.r1 /\ pq[2] < NK(m.nd)} /\ m.r1 \subseteq 0..NK(m.nd) - 1

\* ---- structural invariants of a mesh: the cells of the complete tiling cover the domain exactly once
Vol(cell, nd) == (2 * cell.h) ^ nd
RECURSIVE SumVol(_, _)
SumVol(S, nd) == IF S = {} THEN 0 ELSE LET x == CHOOSE x \in S : TRUE IN Vol(x, nd) + SumVol(S \ {x}, nd)
Overlap(a, b, nd) == \A d \in 1..nd : a.c[d] - a.h < b.c[d] + b.h /\ b.c[d] - b.h < a.c[d] + a.h
TilingOk(m) == /\ SumVol(Cells(m), m.nd) = 32 ^ m.nd
               /\ \A a \in Cells(m) : \A b \in Cells(m) : a # b => ~Overlap(a, b, m.nd)

\* ---- bases: integer vectors over a denominator
Basis(n, u, v, den, name) == [n |-> n, u |-> u, v |-> v, den |-> den, name |-> name]
Bases3 == { Basis(<<0,0,1>>, <<1,0,0>>, <<0,1,0>>, 1, "z"), Basis(<<1,0,0>>, <<0,1,0>>, <<0,0,1>>, 1, "x"), Basis(<<0,1,0>>, <<0,0,1>>, <<1,0,0>>, 1, "y"),
            Basis(<<0,0,1>>, <<0,1,0>>, <<1,0,0>>, 1, "zyx"), Basis(<<0,1,0>>, <<1,0,0>>, <<0,0,1>>, 1, "yxz"), Basis(<<1,0,0>>, <<0,0,1>>, <<0,1,0>>, 1, "xzy"),
            Basis(<<0,0,5>>, <<3,4,0>>, <<-4,3,0>>, 5, "rot345z"), Basis(<<3,4,0>>, <<-4,3,0>>, <<0,0,5>>, 5, "rot345n"), Basis(<<0,3,4>>, <<5,0,0>>, <<0,-4,3>>, 5, "rot345x") }
Bases2 == { Basis(<<0,0,1>>, <<1,0,0>>, <<0,1,0>>, 1, "z") }
Dot3(a, b) == a[1] * b[1] + a[2] * b[2] + a[3] * b[3]
Cross3(a, b) == <<a[2] * b[3] - a[3] * b[2], a[3] * b[1] - a[1] * b[3], a[1] * b[2] - a[2] * b[1]>>
Orthonormal(b) == /\ Dot3(b.n, b.u) = 0 /\ Dot3(b.n, b.v) = 0 /\ Dot3(b.u, b.v) = 0
                  /\ Dot3(b.n, b.n) = b.den * b.den /\ Dot3(b.u, b.u) = b.den * b.den /\ Dot3(b.v, b.v) = b.den * b.den
ASSUME \A b \in Bases3 \cup Bases2 : Orthonormal(b)
ASSUME \A m \in Meshes : WellFormedMesh(m) => TilingOk(m)

\* ---- sampling.  Pixel centres are the odd multiples of s*den: x_i = (2 i - nx + 1) * s * den   (window dx = 2 nx s den)
Centre(i, n, s, den) == (2 * i - n + 1) * s * den
\* all coordinates below are multiplied by den so that they stay integers
Sample(sc, i, j, k) == [d \in 1..3 |-> sc.origin[d] * sc.b.den + (Centre(i, sc.nx, sc.s, sc.b.den) * sc.b.u[d] + Centre(j, sc.ny, sc.sy, sc.b.den) * sc.b.v[d]
                                                                      + (IF sc.nz = 0 THEN 0 ELSE Centre(k, sc.nz, sc.sz, sc.b.den) * sc.b.n[d])) \div sc.b.den]
\* exactness of the division above: centres are multiples of den
AbsI(x) == IF x < 0 THEN -x ELSE x
Inside(p, cell, nd, den) == \A d \in 1..nd : AbsI(p[d] - cell.c[d] * den) < cell.h * den
Touches(p, cell, nd, den) == \A d \in 1..nd : AbsI(p[d] - cell.c[d] * den) <= cell.h * den
\* -1: no loaded cell contains the point (masked); -2: the point lies on a face of the candidates; else index into Loaded
Locate(sc, p) ==
  LET L == sc.cells
      ins == {k \in 1..Len(L) : Inside(p, L[k], sc.m.nd, sc.b.den)}
      tch == {k \in 1..Len(L) : Touches(p, L[k], sc.m.nd, sc.b.den)}
  IN IF ins # {} THEN [id |-> CHOOSE k \in ins : TRUE, alt |-> {}]
     ELSE IF tch = {} THEN [id |-> -1, alt |-> {}]
     ELSE [id |-> -2, alt |-> tch \cup (IF \E c \in Cells(sc.m) : Touches(p, c, sc.m.nd, sc.b.den) /\ \A k \in 1..Len(L) : L[k] # c THEN {-1} ELSE {})]
Table(sc) == [k \in 1..(IF sc.nz = 0 THEN 1 ELSE sc.nz) |-> [j \in 1..sc.ny |-> [i \in 1..sc.nx |-> Locate(sc, Sample(sc, i - 1, j - 1, k - 1))]]]
\* C03 at the level of the specification: a point strictly inside a cell is inside exactly one cell
UniqueLocation(sc) == \A k \in 1..(IF sc.nz = 0 THEN 1 ELSE sc.nz), j \in 1..sc.ny, i \in 1..sc.nx :
   Cardinality({q \in 1..Len(sc.cells) : Inside(Sample(sc, i - 1, j - 1, k - 1), sc.cells[q], sc.m.nd, sc.b.den)}) <= 1

Origins == {<<16, 12, 20>>, <<6, 26, 10>>, <<2, 2, 30>>, <<34, 16, 16>>, <<15, 13, 11>>, <<16, 16, 16>>}
Scenario(m, L, b, o, nx, ny, s, sy, nz, sz) == [m |-> m, cells |-> L, b |-> b, origin |-> [d \in 1..3 |-> IF d <= m.nd THEN o[d] ELSE 0], nx |-> nx, ny |-> ny, s |-> s, sy |-> sy, nz |-> nz, sz |-> sz]
VARIABLES lane, sc
vars == <<lane, sc>>
NL == 16
NoSc == [nx |-> 0]
Init == lane = 0 /\ sc = NoSc
CONSTANTS Thick, Stride      \* Stride thins the lattice deterministically (1 = everything)
Keep(o, nx, ny, s, sy, nz, sz, bname) == (o[1] * 3 + o[2] * 5 + o[3] * 7 + nx * 11 + ny * 13 + s * 17 + sy * 19 + nz * 23 + sz * 29 + (IF bname \in {"z", "rot345z", "yxz"} THEN 1 ELSE IF bname \in {"x", "rot345n"} THEN 2 ELSE 3)) % Stride = 0
ThinSet(m) == LET L == Loaded(m) IN
   {Scenario(m, L, b, o, nx, ny, s, sy, 0, 0) : b \in (IF m.nd = 3 THEN Bases3 ELSE Bases2), o \in Origins, nx \in {1, 2, 4}, ny \in {2, 3}, s \in {1, 2, 4, 8}, sy \in {1, 4}}
ThickSet(m) == LET L == Loaded(m) IN
   {Scenario(m, L, b, o, nx, 2, s, s, nz, sz) : b \in (IF m.nd = 3 THEN Bases3 ELSE Bases2), o \in {<<16, 12, 20>>, <<6, 26, 10>>, <<15, 13, 11>>}, nx \in {2, 4}, s \in {1, 4}, nz \in {1, 2, 5}, sz \in {1, 2, 8}}
Thinned(S) == {x \in S : Keep(x.origin, x.nx, x.ny, x.s, x.sy, x.nz, x.sz, x.b.name)}
Next == \/ lane = 0 /\ lane' \in 1..NL /\ sc = NoSc /\ sc' = NoSc
        \/ lane > 0 /\ sc = NoSc /\ lane' = lane /\
             sc' \in UNION {Thinned(IF Thick THEN ThickSet(m) ELSE ThinSet(m)) : m \in {mm \in Meshes : WellFormedMesh(mm) /\ (Cardinality(mm.r1) * 5 + Cardinality(mm.r2) * 3 + Cardinality(mm.holes) + mm.nd) % NL = lane - 1}}
Inv == sc.nx = 0 \/ UniqueLocation(sc)
SetToSeqSorted(S) == LET RECURSIVE Go(_, _) Go(T, acc) == IF T = {} THEN acc ELSE LET x == CHOOSE x \in T : \A y \in T : x <= y IN Go(T \ {x}, Append(acc, x)) IN Go(S, <<>>)
Compact(t) == [k \in DOMAIN t |-> [j \in DOMAIN t[k] |-> [i \in DOMAIN t[k][j] |-> IF t[k][j][i].id = -2 THEN <<-2>> \o SetToSeqSorted(t[k][j][i].alt) ELSE <<t[k][j][i].id>>]]]
Emit == sc.nx = 0 \/ PrintT(ToJson([m |-> [nd |-> sc.m.nd, cells |-> sc.cells], basis |-> sc.b, origin |-> sc.origin, nx |-> sc.nx, ny |-> sc.ny, s |-> sc.s, sy |-> sc.sy,
                                     nz |-> sc.nz, sz |-> sc.sz, table |-> Compact(Table(sc))]))
====
