---- MODULE TraceContainers ----
(* C -> S binding for Containers: executions recorded from real osyris objects are validated against the
   transition relation of Containers.  One JSON file holds many traces; trace `tid` is consumed event by
   event, each event naming the action and its arguments and carrying the complete projected state the
   implementation was in after the call.  A trace is accepted iff every event is matched. *)
EXTENDS Containers, IOUtils, TLCExt

Traces == JsonDeserialize(IOEnv.TRACE_FILE)
VARIABLES tid, l
tvars == <<vars, tid, l>>

\* ---- the specification state seen the way the recorder sees the implementation
VObj(h, b, o) == [k |-> h[o].kind, v |-> [c \in 1..Len(h[o].comps) |-> CVals(h, b, o, c)], s |-> h[o].scalar,
                  u |-> Sparse(h[o].unit), n |-> h[o].name, dt |-> h[o].dt]
CellsOf(h, o) == UNION {{<<h[o].comps[c].buf, h[o].comps[c].idx[i]>> : i \in 1..Len(h[o].comps[c].idx)} : c \in 1..Len(h[o].comps)}
SharePairs(h) == LET n == Len(h)
                     ps == {p \in (1..n) \X (1..n) : p[1] < p[2] /\ CellsOf(h, p[1]) \cap CellsOf(h, p[2]) # {}}
                 IN SetToSortSeq(ps, LAMBDA p, q : p[1] < q[1] \/ (p[1] = q[1] /\ p[2] < q[2]))
VRes(r) == IF r.t = "dg" THEN [t |-> "dg", keys |-> r.keys, mem |-> [i \in 1..Len(r.keys) |-> r.mem[r.keys[i]]]]
           ELSE IF r.t = "exc" THEN [t |-> "exc", e |-> IF r.e = "KeyError" THEN "KeyError" ELSE "Error"]
           ELSE r
ViewOf(h, b, g, d) == [objs |-> [o \in 1..Len(h) |-> VObj(h, b, o)], share |-> SharePairs(h),
                       dgs |-> [i \in 1..Len(g) |-> PGrp(g[i])], dss |-> [i \in 1..Len(d) |-> PDs(d[i])]]
ResOk(r, logged) == IF r.t = "noteq" THEN (logged.t = "exc" \/ logged = [t |-> "bool", v |-> FALSE])
                    ELSE IF r.t = "exc" /\ r.e # "KeyError" THEN logged.t = "exc"
                    ELSE VRes(r) = logged

Ev == Traces[tid][l]
ToPairs(ps) == [i \in 1..Len(ps) |-> <<ps[i][1], ps[i][2]>>]
\* the specification action named by the event, with the logged arguments
Fire(a) ==
  CASE a.op = "set"      -> DgSet(a.g, a.k, a.o)
    [] a.op = "del"      -> DgDel(a.g, a.k)
    [] a.op = "pop"      -> DgPop(a.g, a.k)
    [] a.op = "popd"     -> DgPopD(a.g, a.k)
    [] a.op = "get"      -> DgGet(a.g, a.k)
    [] a.op = "clear"    -> DgClear(a.g)
    [] a.op = "update"   -> DgUpdate(a.g, ToPairs(a.pairs))
    [] a.op = "copy"     -> DgCopy(a.g)
    [] a.op = "deepcopy" -> DgDeepCopy(a.g)
    [] a.op = "index"    -> DgIndex(a.g, a.kind)
    [] a.op = "slice"    -> Slice(a.o, a.kind)
    [] a.op = "ocopy"    -> Copy(a.o, a.how)
    [] a.op = "to"       -> ObjTo(a.o, a.u)
    [] a.op = "vset"     -> VecSet(a.o, a.c, a.src)
    [] a.op = "sortkey"  -> DgSortByKey(a.g, a.k)
    [] a.op = "sortidx"  -> DgSortByIdx(a.g, a.p)
    [] a.op = "iop"      -> IF a.rhs < 0 THEN IOpSelf(a.f, a.o, 0 - a.rhs) ELSE IOpArgsOk(a.o, a.rhs) /\ IOpQ(a.f, a.o, a.rhs, a.q)
    [] a.op = "eq"       -> DgEq(a.g, a.h)
    [] a.op = "dsset"    -> DsSet(a.d, a.k, a.g)
    [] a.op = "dssetbad" -> DsSetBad(a.d, a.k, a.o)
    [] a.op = "dsupdatebad" -> DsUpdateBad(a.d, a.k, a.o)
    [] a.op = "dsdel"    -> DsDel(a.d, a.k)
    [] a.op = "dspop"    -> DsPop(a.d, a.k)
    [] a.op = "dspopd"   -> DsPopD(a.d, a.k)
    [] a.op = "dsget"    -> DsGet(a.d, a.k)
    [] a.op = "dsmeta"   -> DsMeta(a.d, a.mk)
    [] a.op = "dsclear"  -> DsClear(a.d)
    [] a.op = "dsupdate" -> DsUpdate(a.d, ToPairs(a.pairs))
    [] a.op = "dscopy"   -> DsCopy(a.d)
    [] a.op = "dsdeepcopy" -> DsDeepCopy(a.d)

TInit == Init /\ tid \in 1..Len(Traces) /\ l = 1
TNext == /\ l <= Len(Traces[tid])
         /\ Fire(Ev.a)
         /\ UNCHANGED tid
         /\ LET want == ViewOf(heap', bufs', dgs', dss') IN
            IF want = Ev.post.state /\ ResOk(res', Ev.post.res)
            THEN l' = l + 1
            ELSE /\ PrintT(<<"REJECT", tid, l>>) /\ PrintT(ToJson([tid |-> tid, l |-> l, want |-> want, res |-> VRes(res')]))
                 /\ FALSE
\* acceptance bookkeeping: register tid holds the furthest position reached in trace tid
ASSUME \A t \in 1..Len(Traces) : TLCSet(t, 1)
Mark == TLCSet(tid, IF l > TLCGet(tid) THEN l ELSE TLCGet(tid))
Post == \A t \in 1..Len(Traces) : PrintT(<<"TRACE", t, TLCGet(t) - 1, Len(Traces[t])>>)
\* the state invariants of Containers are evaluated at every step of every trace as well
====
