---- MODULE ArrayMachine ----
(* The case lattice over the rules of ArrayRules.tla: enumerated in Next, checked against the algebraic invariants,
   emitted for replay on real Arrays (harness/arrays.py).  Decides C02, C07, C08, C10. *)
EXTENDS ArrayRules

\* ------------------------------------------------------------------ the lattice
BinCase(f, op, lu, ru, ldt, rdt, rk, ls, rs) == [fam |-> f, op |-> op, lu |-> lu, ru |-> ru, ldt |-> ldt, rdt |-> rdt, rk |-> rk, ls |-> ls, rs |-> rs]
F_Units  == {BinCase("units", op, i, j, "f8", "f8", "arr", "s2", "s2") : op \in Arith \cup Cmp, i \in 1..NPool, j \in 1..NPool}
F_Dtypes == {BinCase("dtypes", op, i, j, a, b, "arr", "s2", "s2") : op \in Arith \cup Cmp, i \in {IdxOf("m"), IdxOf("cm")}, j \in {IdxOf("m"), IdxOf("cm"), IdxOf("s")}, a \in Dts, b \in Dts}
            \cup {BinCase("dtypes", op, i, i, a, b, "arr", "s2", "s2") : op \in Arith \cup Cmp, i \in {IdxOf("1")}, a \in Dts, b \in Dts}
F_Kinds  == {BinCase("kinds", op, i, j, a, "f8", rk, "s2", IF rk \in {"int", "float", "nd0"} THEN "s0" ELSE "s2") :
               op \in Arith \cup Cmp, i \in {IdxOf("m"), IdxOf("1"), IdxOf("m/cm")}, j \in {IdxOf("m"), IdxOf("cm"), IdxOf("s"), IdxOf("1")}, a \in {"f8", "i8", "f4", "i4"}, rk \in RhsKinds \ {"arr"}}
F_Shapes == {BinCase("shapes", op, IdxOf("m"), j, "f8", "f8", "arr", ls, rs) : op \in {"add", "mul", "div", "lt", "eq"}, j \in {IdxOf("cm"), IdxOf("m")}, ls \in Shapes, rs \in Shapes}
F_Logic  == {BinCase("logic", op, IdxOf("1"), IdxOf("1"), "b1", "b1", "arr", ls, rs) : op \in Logic, ls \in {"s0", "s2", "s12", "s22"}, rs \in {"s0", "s2", "s22"}}
F_Unary  == {[fam |-> "unary", op |-> op, lu |-> i, ldt |-> a, ls |-> s] : op \in UnOps \ {"invert"}, i \in 1..NPool, a \in {"f8", "i8"}, s \in {"s2"}}
            \cup {[fam |-> "unary", op |-> op, lu |-> i, ldt |-> a, ls |-> s] : op \in UnOps \ {"invert"}, i \in SmallPool, a \in Dts, s \in {"s0", "s22"}}
            \cup {[fam |-> "unary", op |-> "invert", lu |-> IdxOf("1"), ldt |-> "b1", ls |-> s] : s \in {"s0", "s2", "s22"}}
F_To     == {[fam |-> "to", lu |-> i, ru |-> j, ldt |-> "f8", ls |-> "s2"] : i \in 1..NPool, j \in 1..NPool}
            \cup {[fam |-> "to", lu |-> i, ru |-> j, ldt |-> a, ls |-> s] : i \in SmallPool \cup {IdxOf("km"), IdxOf("pc"), IdxOf("au")}, j \in SmallPool \cup {IdxOf("km"), IdxOf("pc"), IdxOf("au")}, a \in Dts, s \in {"s0", "s22"}}
            \* single-precision data between units whose own CGS values do not fit in single precision (the ratio does)
            \cup {[fam |-> "to", lu |-> i, ru |-> j, ldt |-> "f4", ls |-> s] : i \in {IdxOf("pc3"), IdxOf("au3")}, j \in {IdxOf("pc3"), IdxOf("au3")}, s \in {"s2", "s22"}}
\* chains a -> b -> c against a -> c inside one dimension family
F_Chain  == {[fam |-> "chain", lu |-> i, mu |-> j, ru |-> k, ldt |-> "f8", ls |-> "s2"] : i \in 1..NPool, j \in 1..NPool, k \in 1..NPool}
NpArgKinds == {"arr", "nd1", "float"}
F_Np     == {[fam |-> "np", f |-> f, lu |-> i, ru |-> i, rk |-> "none", ldt |-> a, ls |-> "s22"] : f \in Keep1 \cup Pred1 \cup Index1 \cup Trans1, i \in SmallPool \cup {IdxOf("m2"), IdxOf("cm3")}, a \in Dts \cup {"u4"}}
            \cup {[fam |-> "np", f |-> f, lu |-> i, ru |-> j, rk |-> rk, ldt |-> a, ls |-> "s2"] :
                    f \in Keep2 \cup Pred2 \cup Trans2 \cup KeepSeq, i \in SmallPool, j \in SmallPool \cup {IdxOf("km")}, rk \in NpArgKinds, a \in {"f8", "f4", "i8"}}
            \* a pint Quantity handed straight to the numpy function: the same quantity as the Array it would wrap
            \cup {[fam |-> "np", f |-> f, lu |-> i, ru |-> j, rk |-> "qty", ldt |-> a, ls |-> "s2"] :
                    f \in Keep2 \cup Pred2 \cup Trans2, i \in SmallPool, j \in SmallPool \cup {IdxOf("km")}, a \in {"f8", "i8"}}
            \cup {[fam |-> "np", f |-> f, lu |-> i, ru |-> j, rk |-> "out", ldt |-> "f8", ls |-> "s2"] : f \in {"add", "multiply", "sqrt", "maximum", "less"}, i \in SmallPool, j \in {IdxOf("s")}}
\* short histories on ONE Array object: a unit-transforming function, an in-place change of the Array's unit, and a
\* unit-transforming function again - the second result follows the unit the Array has THEN (nothing about an Array's
\* unit may be remembered across calls)
HistFns == {"sqrt", "square", "reciprocal"}
F_NpHist == {[fam |-> "nphist", f1 |-> f1, mut |-> m, f2 |-> f2, lu |-> i, ldt |-> "f8", ls |-> "s2"] :
               f1 \in HistFns, m \in {"imul", "out", "setter", "idiv"}, f2 \in HistFns, i \in {IdxOf("m"), IdxOf("s"), IdxOf("m2")}}
\* ... and the same for the operators (C02): after x *= y the unit of x * k, x ** 2, k / x follows the unit x has then
F_OpHist == {[fam |-> "ophist", mut |-> m, f2 |-> f2, lu |-> i, ru |-> j, ldt |-> "f8", ls |-> "s2"] :
               m \in {"imul", "idiv"}, f2 \in {"mulk", "pow2", "rdivk", "neg", "imul2"}, i \in {IdxOf("m"), IdxOf("s")}, j \in {IdxOf("s"), IdxOf("cm")}}
OpHistUnit(c) == LET u == PU(c.lu)  v == IF Compatible(u, PU(c.ru)) THEN u ELSE PU(c.ru)
                     now == IF c.mut = "imul" THEN UMul(u, v) ELSE UDiv(u, v) IN
                 CASE c.f2 \in {"mulk", "neg"} -> now [] c.f2 = "pow2" -> UPow(now, 2) [] c.f2 = "rdivk" -> UInv(now)
                   [] c.f2 = "imul2" -> (IF c.mut = "imul" THEN UMul(now, v) ELSE UDiv(now, v))
UnitAfter(m, u) == CASE m \in {"imul", "out"} -> UMul(u, u) [] m = "idiv" -> Unit0 [] m = "setter" -> UPow(U1("kg"), 2)
Tr(f, u) == CASE f = "sqrt" -> URoot(u, 2) [] f = "square" -> UPow(u, 2) [] f = "reciprocal" -> UInv(u)
\* in-place operators x op= y (C17): the outcome is that of x op y (same rule), x stays the same object, y is left untouched
F_Inplace == {BinCase("inplace", op, i, j, a, b, rk, "s2", IF rk = "float" THEN "s0" ELSE "s2") :
                op \in Arith, i \in SmallPool \cup {IdxOf("km")}, j \in SmallPool \cup {IdxOf("km")}, a \in {"f8", "f4"}, b \in {"f8", "f4"}, rk \in {"arr", "qty", "float", "nd1"}}
CONSTANT Fams       \* the families a run enumerates (a check only needs those that decide its property)
FamSet(f) == CASE f = "units" -> F_Units [] f = "dtypes" -> F_Dtypes [] f = "kinds" -> F_Kinds [] f = "shapes" -> F_Shapes [] f = "logic" -> F_Logic
               [] f = "unary" -> F_Unary [] f = "to" -> F_To [] f = "chain" -> F_Chain [] f = "np" -> F_Np \cup F_NpHist [] f = "inplace" -> F_Inplace [] f = "ophist" -> F_OpHist
LaneCases(k) == UNION {{c \in FamSet(f) : (c.lu * 7 + (IF "ru" \in DOMAIN c THEN c.ru ELSE 0)) % NL = k} : f \in Fams}

OutcomeOf(c) ==
  CASE c.fam \in {"units", "dtypes", "kinds", "shapes", "logic", "inplace"} -> Outcome(c)
    [] c.fam = "unary" -> UnOutcome(c.op, c.lu)
    [] c.fam = "to" -> ToOutcome(c.lu, c.ru)
    [] c.fam = "chain" -> [ab |-> ToOutcome(c.lu, c.mu), bc |-> ToOutcome(c.mu, c.ru), ac |-> ToOutcome(c.lu, c.ru)]
    [] c.fam = "np" -> NpOutcome(c)
    [] c.fam = "ophist" -> [raises |-> FALSE, bool |-> FALSE, unit |-> Sparse(OpHistUnit(c))]
    [] c.fam = "nphist" -> [raises |-> FALSE, bool |-> FALSE, unit |-> Sparse(Tr(c.f2, UnitAfter(c.mut, PU(c.lu))))]

VARIABLES lane, case
vars == <<lane, case>>
Init == lane = 0 /\ case = NoCase
\* the lattice is enumerated in Next; lanes spread it over the workers (a case belongs to the lane of its hash)
Next == \/ lane = 0 /\ lane' \in 1..NL /\ case' = NoCase
        \/ lane > 0 /\ case = NoCase /\ lane' = lane /\ case' \in LaneCases(lane - 1)

\* ------------------------------------------------------------------ invariants of the rule
\* dimensional soundness, stated through the dimension algebra (independent of the name-exponent algebra of ResultUnit)
DimSound == case.fam \in {"units", "dtypes", "kinds", "shapes"} /\ ~Outcome(case).raises =>
   LET du == Dim(PU(case.lu))  dv == Dim(RhsUnitOf(case))  dr == Dim(ResultUnit(case)) IN
   CASE case.op \in {"add", "sub"} -> dr = du /\ du = dv
     [] case.op = "mul" -> dr = DAdd(du, dv)
     [] case.op = "div" -> dr = DSub(du, dv)
     [] OTHER -> dr = D(0, 0, 0, 0)
StrictOpsRaiseIffIncompatible == case.fam \in {"units", "dtypes", "kinds"} /\ Strict(case.op) /\ Bcast(case.ls, case.rs) # "err" =>
   (Outcome(case).raises <=> Dim(PU(case.lu)) # Dim(RhsUnitOf(case)))
LenientNeverRaisesOnUnits == case.fam \in {"units", "dtypes", "kinds"} /\ case.op \in {"mul", "div"} => ~Outcome(case).raises
BoolIsDimensionless == case.fam # "none" /\ case.fam # "chain" =>
   LET o == OutcomeOf(case) IN (~o.raises /\ "bool" \in DOMAIN o /\ o.bool) => o.unit = <<>>
\* a -> b -> c equals a -> c, and a -> b -> a is the identity (exact, whole metric pool)
ChainCommutes == case.fam = "chain" /\ AllMetric(PU(case.lu)) /\ AllMetric(PU(case.mu)) /\ AllMetric(PU(case.ru))
                 /\ Compatible(PU(case.lu), PU(case.mu)) /\ Compatible(PU(case.mu), PU(case.ru)) =>
   /\ RMul(Ratio(PU(case.lu), PU(case.mu)), Ratio(PU(case.mu), PU(case.ru))) = Ratio(PU(case.lu), PU(case.ru))
   /\ RMul(Ratio(PU(case.lu), PU(case.mu)), Ratio(PU(case.mu), PU(case.lu))) = ROne
ToRaisesIffIncompatible == case.fam = "to" => (ToOutcome(case.lu, case.ru).raises <=> Dim(PU(case.lu)) # Dim(PU(case.ru)))
Emit == case.fam = "none" \/ PrintT(ToJson([c |-> case, o |-> OutcomeOf(case), names |-> [l |-> PN(case.lu), r |-> IF "ru" \in DOMAIN case THEN PN(case.ru) ELSE "", m |-> IF "mu" \in DOMAIN case THEN PN(case.mu) ELSE ""]]))
====
