---- MODULE Units ----
(* Unit catalogue and unit algebra shared by all specifications.
   A unit is a function from the names with non-zero exponent to that exponent (named units, so that m and cm stay
   distinguishable).  Dim(u) is its exponent vector over the base dimensions L, M, T, K; two units are
   compatible iff their dimensions agree.  Metric units carry an exact factor to CGS (a Rational);
   astrophysical units carry a dimension only - their numeric factor is an oracle table evaluated by the
   replayer in exact Fractions (DESIGN 3.1), TLC never computes with it. *)
EXTENDS Rational, Sequences, FiniteSets

MetricNames == <<"mm", "cm", "m", "km", "g", "kg", "s", "min", "h", "K", "erg", "J", "W">>
AstroNames  == <<"au", "pc", "yr", "M_sun", "M_earth", "M_jup", "R_sun", "R_earth", "R_jup", "L_sun", "L_bol0", "ar">>
NameOrder   == MetricNames \o AstroNames
UnitNames   == {NameOrder[i] : i \in 1..Len(NameOrder)}
IsMetric(n) == \E i \in 1..Len(MetricNames) : MetricNames[i] = n

Dims == <<"L", "M", "T", "K">>
D(l, m, t, k) == [L |-> l, M |-> m, T |-> t, K |-> k]
DimOf(n) ==
  CASE n \in {"mm", "cm", "m", "km", "au", "pc", "R_sun", "R_earth", "R_jup"} -> D(1, 0, 0, 0)
    [] n \in {"g", "kg", "M_sun", "M_earth", "M_jup"}                        -> D(0, 1, 0, 0)
    [] n \in {"s", "min", "h", "yr"}                                         -> D(0, 0, 1, 0)
    [] n = "K"                                                               -> D(0, 0, 0, 1)
    [] n \in {"erg", "J"}                                                    -> D(2, 1, -2, 0)
    [] n \in {"W", "L_sun", "L_bol0"}                                        -> D(2, 1, -3, 0)
    [] n = "ar"                                                              -> D(-1, 1, -2, -4)   \* erg cm^-3 K^-4

\* exact CGS value of one metric unit
Factor(n) ==
  CASE n = "mm" -> <<1, 1, -1>> [] n = "cm" -> ROne [] n = "m" -> <<1, 1, 2>> [] n = "km" -> <<1, 1, 5>>
    [] n = "g" -> ROne [] n = "kg" -> <<1, 1, 3>>
    [] n = "s" -> ROne [] n = "min" -> <<6, 1, 1>> [] n = "h" -> <<36, 1, 2>>
    [] n = "K" -> ROne [] n = "erg" -> ROne [] n = "J" -> <<1, 1, 7>> [] n = "W" -> <<1, 1, 7>>

\* sparse representation: the domain of a unit is exactly the set of names with a non-zero exponent
Ex(u, n) == IF n \in DOMAIN u THEN u[n] ELSE 0
Unit0 == [n \in {} |-> 0]                              \* dimensionless
U1(n) == [x \in {n} |-> 1]
UMk(f(_)) == [n \in {x \in UnitNames : f(x) # 0} |-> f(n)]
UMul(u, v) == LET f(n) == Ex(u, n) + Ex(v, n) IN UMk(f)
UDiv(u, v) == LET f(n) == Ex(u, n) - Ex(v, n) IN UMk(f)
UPow(u, k) == LET f(n) == Ex(u, n) * k IN UMk(f)
UInv(u)    == UPow(u, -1)
\* root defined only when every exponent is divisible
URootOk(u, k) == \A n \in DOMAIN u : u[n] % k = 0
URoot(u, k)   == [n \in DOMAIN u |-> u[n] \div k]

RECURSIVE SetSum(_, _, _)
SetSum(u, d, S) == IF S = {} THEN 0 ELSE LET n == CHOOSE n \in S : TRUE IN u[n] * DimOf(n)[d] + SetSum(u, d, S \ {n})
Dim(u) == [d \in {"L", "M", "T", "K"} |-> SetSum(u, d, DOMAIN u)]
Compatible(u, v) == u = v \/ Dim(u) = Dim(v)
Dimensionless(u) == Dim(u) = D(0, 0, 0, 0)
AllMetric(u) == \A n \in DOMAIN u : IsMetric(n)

\* CGS value of one unit u (metric units only)
RECURSIVE FacProd(_, _)
FacProd(u, i) == IF i > Len(MetricNames) THEN ROne
                 ELSE IF MetricNames[i] \notin DOMAIN u THEN FacProd(u, i + 1)
                 ELSE RMul(RPow(Factor(MetricNames[i]), Ex(u, MetricNames[i])), FacProd(u, i + 1))
ToCGS(u) == FacProd(u, 1)
\* multiplier taking a value expressed in u to the same quantity expressed in v (u, v compatible, metric)
Ratio(u, v) == IF u = v THEN ROne ELSE RDiv(ToCGS(u), ToCGS(v))

\* sparse, order-canonical form used in emitted JSON: <<<<name, exp>>, ...>>
Sparse(u) == LET idx == SelectSeq([i \in 1..Len(NameOrder) |-> i], LAMBDA i : NameOrder[i] \in DOMAIN u)
             IN [j \in 1..Len(idx) |-> <<NameOrder[idx[j]], u[NameOrder[idx[j]]]>>]

\* ---- sanity theorems checked by TLC at start-up
ASSUME Dim(U1("erg")) = Dim(UMul(U1("g"), UMul(UPow(U1("cm"), 2), UPow(U1("s"), -2))))
ASSUME Dim(U1("W")) = Dim(UDiv(U1("J"), U1("s")))
ASSUME Dim(U1("L_sun")) = Dim(U1("W"))
ASSUME Dim(U1("ar")) = Dim(UMul(U1("erg"), UMul(UPow(U1("cm"), -3), UPow(U1("K"), -4))))
ASSUME Ratio(U1("J"), U1("erg")) = <<1, 1, 7>>
ASSUME Ratio(U1("km"), U1("mm")) = <<1, 1, 6>>
ASSUME Ratio(U1("h"), U1("min")) = <<6, 1, 1>>
ASSUME Ratio(UDiv(U1("km"), U1("h")), UDiv(U1("m"), U1("s"))) = RNorm(5, 18, 0)
ASSUME Ratio(U1("W"), UDiv(U1("erg"), U1("s"))) = <<1, 1, 7>>
====
