---- MODULE TraceLayout ----
(* C -> S binding for the loader: the binary reads performed by the real parser during load() calls, recorded by
   wrapping osyris.io.utils.read_binary_data, are validated against the record grammar of RamsesLayout.
   A trace belongs to one configuration; every event [k: file kind, f: cpu, t: element type, n: count, off: byte offset,
   head: FALSE for a length probe] must hit exactly one record of the file computed by the specification:
   a read starts at the payload of a record (a probe at its length marker), has the record's element type and fits
   inside it.  A trace is accepted iff every event is matched; rejected events are printed. *)
EXTENDS RamsesLayout, TLCExt
Traces == JsonDeserialize(IOEnv.TRACE_FILE)
VARIABLES tid, l, cur, tab
tvars == <<lane, i, tid, l, cur, tab>>
Kinds == {"amr", "hydro", "grav", "rt", "part"}
TabFor(c, f) == [k \in Kinds |-> LET recs == Files(c, f)[k] IN [starts |-> Starts(recs), recs |-> recs]]
TInit == lane = 0 /\ i = 0 /\ tid \in 1..Len(Traces) /\ l = 1 /\ cur = 0 /\ tab = <<>>
TypeOk(rt, t) == LET r == IF rt = "q" THEN "d" ELSE rt IN r = t \/ (r \in {"s", "b"} /\ t \in {"s", "b"})
Hit(ev, T) == \E k \in 1..Len(T.recs) :
                 /\ T.starts[k] + (IF ev.head THEN 4 ELSE 0) = ev.off
                 /\ (ev.head => TypeOk(T.recs[k].t, ev.t) /\ ev.n * SizeOf(ev.t) <= Len(T.recs[k].v) * SizeOf(T.recs[k].t))
TNext == /\ l <= Len(Traces[tid].events)
         /\ UNCHANGED <<lane, i, tid>>
         /\ LET ev == Traces[tid].events[l]
                c == Cfgs[Traces[tid].cfg]
                T == IF cur = ev.f THEN tab ELSE TabFor(c, ev.f)
            IN /\ cur' = ev.f /\ tab' = T
               /\ IF Hit(ev, T[ev.k]) THEN l' = l + 1
                  ELSE PrintT(<<"REJECT", tid, l, ev.k, ev.f, ev.t, ev.n, ev.off>>) /\ FALSE
ASSUME \A t \in 1..Len(Traces) : TLCSet(t, 1)
Mark == TLCSet(tid, IF l > TLCGet(tid) THEN l ELSE TLCGet(tid))
Post == \A t \in 1..Len(Traces) : PrintT(<<"TRACE", t, TLCGet(t) - 1, Len(Traces[t].events)>>)
====
