---- MODULE UnitsCatalogue ----
(* C08, second clause: the astrophysical units and constants osyris defines convert to CGS with their accepted
   physical values, and equivalent spellings denote one unit.  The table is the oracle (IAU 2015 Resolution B3
   nominal values, IAU 2012 B2 for the astronomical unit, CODATA 2018 for the radiation constant); TLC checks its
   internal consistency (dimension of every entry, disjoint spelling classes, derived relations) and emits it. *)
EXTENDS Units, TLC, Json
\* accepted CGS value = mant * 10^exp10 (mantissa integer), relative tolerance = 1 / invtol
Entry(n, cgsunit, mant, e, invtol, spell) == [name |-> n, cgs |-> cgsunit, mant |-> mant, exp10 |-> e, invtol |-> invtol, spellings |-> spell]
ErgPerS == UDiv(U1("erg"), U1("s"))
Table == <<
  Entry("M_sun",   U1("g"),  19884, 29, 200, {"M_sun", "M_sol", "solar_mass"}),          \* GM_sun nominal / G(CODATA): 1.9884e33 g, sources differ by a few 1e-4
  Entry("M_earth", U1("g"),  59722, 23, 200, {"M_earth", "earth_mass"}),
  Entry("M_jup",   U1("g"),  18982, 26, 200, {"M_jup", "jupiter_mass"}),
  Entry("R_sun",   U1("cm"), 6957,  7,  200, {"R_sun", "R_sol", "solar_radius"}),         \* 6.957e10 cm (nominal)
  Entry("R_earth", U1("cm"), 63781, 4,  200, {"R_earth", "earth_radius"}),               \* equatorial 6.3781e8 cm
  Entry("R_jup",   U1("cm"), 71492, 5,  200, {"R_jup", "jupiter_radius"}),               \* equatorial 7.1492e9 cm
  Entry("L_sun",   ErgPerS,  3828,  30, 100000000, {"L_sun", "L_sol", "solar_luminosity"}),   \* 3.828e33 erg/s exactly (nominal)
  Entry("L_bol0",  ErgPerS,  30128, 31, 100000000, {"L_bol0", "bolometric_luminosity"}),      \* 3.0128e35 erg/s exactly (IAU 2015 B2)
  Entry("ar",      UMul(U1("erg"), UMul(UPow(U1("cm"), -3), UPow(U1("K"), -4))), 7565733, -21, 10000, {"ar", "radiation_constant"}) >>   \* 7.565733e-15
\* other equivalent spellings osyris.units must map to one unit
ExprClasses == { {"g/cm**3", "g*cm^-3", "g cm^-3", "gram/centimeter**3"}, {"cm/s", "cm*s**-1", "centimeter/second"}, {"erg", "g*cm**2/s**2"},
                 {"m", "meter", "metre"}, {"au", "astronomical_unit"}, {"pc", "parsec"}, {"yr", "year"}, {"dimensionless", ""} }
\* consistency of the table
DimOk == \A i \in 1..Len(Table) : Dim(U1(Table[i].name)) = Dim(Table[i].cgs)
Disjoint == \A i, j \in 1..Len(Table) : i # j => Table[i].spellings \cap Table[j].spellings = {}
NamesSpelled == \A i \in 1..Len(Table) : Table[i].name \in Table[i].spellings
\* the solar units are larger than the planetary ones by the known orders of magnitude (guards mantissa/exponent slips in the oracle)
Mag(i) == Table[i].exp10 + (IF Table[i].mant >= 1000000 THEN 6 ELSE IF Table[i].mant >= 100000 THEN 5 ELSE IF Table[i].mant >= 10000 THEN 4 ELSE 3)
Orders == Mag(1) = 33 /\ Mag(2) = 27 /\ Mag(3) = 30 /\ Mag(4) = 10 /\ Mag(5) = 8 /\ Mag(6) = 9 /\ Mag(7) = 33 /\ Mag(8) = 35 /\ Mag(9) = -15
ASSUME DimOk /\ Disjoint /\ NamesSpelled /\ Orders
VARIABLE i
Init == i = 0
Next == i = 0 /\ i' = 1
Emit == i = 0 \/ PrintT(ToJson([table |-> [k \in 1..Len(Table) |-> [name |-> Table[k].name, cgs |-> Sparse(Table[k].cgs), mant |-> Table[k].mant, exp10 |-> Table[k].exp10,
                                                                invtol |-> Table[k].invtol, spellings |-> Table[k].spellings]],
                                  classes |-> ExprClasses]))
====
