---- MODULE LayerOptions ----
(* Plotting calls (C19): option precedence and argument purity as a state machine over call histories.
   Layer objects are shared between the calls of a history.  A Layer holds the options set on it (layerSet); a call
   passes call-level options (callSet).  The effective value of option o for a layer is
        the layer's value  if o is set on the layer,
        else the call's    if o is passed to the call,
        else the function's default,
   and NOTHING a call is given changes: the Layer's own options after any history are those it was created with.
   TLC enumerates every history up to Depth over (function, callSet) for every layerSet in the chosen lattice and emits,
   per call, the effective source (L / C / D) of every option for the layer with options and for a plain layer. *)
EXTENDS Integers, Sequences, FiniteSets, TLC, Json
CONSTANTS Depth, Full
Options == {"mode", "norm", "vmin", "vmax", "operation", "extra"}
Fns == {"map", "histogram2d"}
\* the lattice of option sets: all subsets (Full) or those with at most 2 elements plus the full set
Sets == IF Full THEN SUBSET Options ELSE {S \in SUBSET Options : Cardinality(S) <= 2 \/ S = Options}
Src(o, layerSet, callSet) == IF o \in layerSet THEN "L" ELSE IF o \in callSet THEN "C" ELSE "D"
VARIABLES layerSet,     \* options set on the shared Layer object L1 when it was created
          layerNow,     \* options set on L1 now (must never change)
          hist          \* sequence of calls [fn, callSet]
vars == <<layerSet, layerNow, hist>>
Init == layerSet \in Sets /\ layerNow = layerSet /\ hist = <<>>
Call(fn, cs) == /\ Len(hist) < Depth
                /\ hist' = Append(hist, [fn |-> fn, cs |-> cs])
                /\ UNCHANGED <<layerSet, layerNow>>          \* parse_layer works on a copy: the caller's Layer is not touched
Next == \E fn \in Fns, cs \in Sets : Call(fn, cs)
ArgumentsUntouched == layerNow = layerSet
\* precedence, stated independently of Src: a call-level value is used only where the layer leaves the option unset
Precedence == \A i \in 1..Len(hist) : \A o \in Options :
     /\ (o \in layerSet => Src(o, layerSet, hist[i].cs) = "L")
     /\ (o \notin layerSet /\ o \in hist[i].cs => Src(o, layerSet, hist[i].cs) = "C")
     /\ (o \notin layerSet /\ o \notin hist[i].cs => Src(o, layerSet, hist[i].cs) = "D")
\* the effective options of a call depend on that call alone, not on the calls before it
Emit == hist = <<>> \/ PrintT(ToJson([layer |-> layerSet, hist |-> [i \in 1..Len(hist) |-> [fn |-> hist[i].fn, cs |-> hist[i].cs,
                                        eff1 |-> [o \in Options |-> Src(o, layerSet, hist[i].cs)], eff2 |-> [o \in Options |-> Src(o, {}, hist[i].cs)]]]]))
====
