---- MODULE HistEmit ----
EXTENDS HistMachine
ASSUME EmitScenarios
====
