---- MODULE RamsesLayout ----
(* The RAMSES output grammar (Fortran unformatted records of the amr / hydro / grav / rt / part files) and what
   a load() call must return for it.  This module is the single source of truth for the on-disk layout: the
   harness only packs the records computed here into bytes, and compares what the real loader returns with
   Expected(c, req).  Configurations come in through a JSON file (IOEnv.CFG_FILE): exhaustive small families
   and seeded batches are produced by harness/ramses_cfg.py; TLC checks the structural invariants of every
   configuration (Tiling, Distinct positions, ownership) and evaluates the layout and the expectations.

   A record is [t |-> "i"|"d"|"q"|"s"|"b", v |-> values, tag |-> name]; "q" holds exact rationals <<num, den>>
   written as doubles.  Stored values are tokens: distinct per (file kind, oct, cell, variable), and a ghost
   copy of an oct in a foreign file carries different tokens than the owner's copy, so that a value read from
   the wrong record, the wrong cell or a ghost copy cannot go unnoticed. *)
EXTENDS Hilbert, TLC, Json, IOUtils, SequencesExt

Cfgs == JsonDeserialize(IOEnv.CFG_FILE)

RECURSIVE Cat(_)
Cat(ss) == IF ss = <<>> THEN <<>> ELSE Head(ss) \o Cat(Tail(ss))
Rep(n, v) == [k \in 1..n |-> v]
Pow2(n) == 2 ^ n
TwoToNdim(c) == Pow2(c.ndim)
Ndom(c) == c.ncpu + c.nboundary
Oct(c, o) == c.octs[o]
R(t, vals, tag) == [t |-> t, v |-> vals, tag |-> tag]

\* octs held by file f at level l under domain index dom (1..ncpu = cpus, then boundary regions), in file order
Held(c, f, l, dom) ==
  IF dom <= c.ncpu
  THEN SelectSeq(c.held[f], LAMBDA o : Oct(c, o).level = l /\ Oct(c, o).owner = dom)
  ELSE Rep(c.bocts[f][dom - c.ncpu][l], 0)          \* dummy boundary octs, id 0

\* ---- geometry on the integer lattice: coordinates in units of 1/S of the box, S = 2^(levelmax+1)
S(c) == Pow2(c.levelmax + 1)
CBit(ind, d) == (ind \div Pow2(d - 1)) % 2            \* d = 1:x, 2:y, 3:z ; ind in 0..2^ndim-1
CellOff(c, l, ind, d) == (2 * CBit(ind, d) - 1) * Pow2(c.levelmax - l)    \* +-dx_l/2
RECURSIVE Centre(_, _, _)
Centre(c, o, d) == IF Oct(c, o).father = 0 THEN S(c) \div 2
                   ELSE Centre(c, Oct(c, o).father, d) + CellOff(c, Oct(c, o).level - 1, Oct(c, o).fcell, d)
CellPos(c, o, ind, d) == Centre(c, o, d) + CellOff(c, Oct(c, o).level, ind, d)
Xb(c) == c.nx \div 2

\* ---- tokens
Ghost(c, f, o) == IF Oct(c, o).owner = f THEN 0 ELSE 500000
Tok(kind, o, ind, v) == kind * 100000 + (o * 8 + ind) * 16 + v          \* kind 0 hydro, 1 grav, 2 rt
PTok(f, j, v) == 300000 + (f * 64 + j) * 16 + v
PByte(f, j, v) == ((f * 31 + j * 7 + v) % 200) - 100          \* signed bytes (RAMSES family codes are negative for tracers)

\* ------------------------------------------------------------------ amr file
AmrHeader(c, f) ==
  LET nl == c.levelmax  nc == c.ncpu  nb == c.nboundary
      ncoarse == c.nx ^ c.ndim
      numbl == Cat([l \in 1..nl |-> [d \in 1..nc |-> Len(Held(c, f, l, d))]])
      numbb == Cat([l \in 1..nl |-> [b \in 1..nb |-> c.bocts[f][b][l]]])
  IN << R("i", <<nc>>, "ncpu"), R("i", <<c.ndim>>, "ndim"),
        R("i", <<c.nx, IF c.ndim > 1 THEN c.nx ELSE 1, IF c.ndim > 2 THEN c.nx ELSE 1>>, "nxnynz"),
        R("i", <<nl>>, "nlevelmax"), R("i", <<1000>>, "ngridmax"), R("i", <<nb>>, "nboundary"),
        R("i", <<7>>, "ngrid_current"), R("d", <<1>>, "boxlen"),
        R("i", <<c.noutput, 1, 1>>, "noutput"), R("d", Rep(c.noutput, 0), "tout"), R("d", Rep(c.noutput, 0), "aout"),
        R("d", <<0>>, "t"), R("d", [l \in 1..nl |-> 100 + l], "dtold"), R("d", [l \in 1..nl |-> 200 + l], "dtnew"),
        R("i", <<3, 4>>, "nstep"), R("d", Rep(3, 0), "const"), R("d", Rep(7, 0), "omega"), R("d", Rep(5, 0), "aexp"),
        R("d", <<0>>, "mass_sph"), R("i", Rep(nc * nl, 11), "headl"), R("i", Rep(nc * nl, 12), "taill"),
        R("i", numbl, "numbl"), R("i", Rep(10 * nl, 13), "numbtot") >>
     \o (IF nb > 0 THEN << R("i", Rep(nb * nl, 14), "headb"), R("i", Rep(nb * nl, 15), "tailb"), R("i", numbb, "numbb") >> ELSE <<>>)
     \o << R("i", <<1, 2, 3, 4, 5>>, "headf"), R("s", Rep(128, 32), "ordering"),
           (IF c.quadkeys THEN R("s", Rep(16 * (nc + 1), 0), "bound_key") ELSE R("d", Rep(nc + 1, 0), "bound_key")),
           R("i", Rep(ncoarse, 1), "son_c"), R("i", Rep(ncoarse, 0), "flag_c"), R("i", Rep(ncoarse, 1), "cpu_c") >>
AmrBlock(c, f, l, dom) ==
  LET lst == Held(c, f, l, dom)  n == Len(lst)  tw == TwoToNdim(c)
      real(o) == o # 0
  IN IF n = 0 THEN <<>> ELSE
     << R("i", [k \in 1..n |-> k], "ind_grid"), R("i", Rep(n, 0), "next"), R("i", Rep(n, 0), "prev") >>
     \o [d \in 1..c.ndim |-> R("q", [k \in 1..n |-> IF real(lst[k]) THEN <<Centre(c, lst[k], d) + Xb(c) * S(c), S(c)>> ELSE <<7, 1>>], "xg")]
     \o << R("i", Rep(n, 0), "father") >>
     \o [k \in 1..2 * c.ndim |-> R("i", Rep(n, 0), "nbor")]
     \o [ind \in 1..tw |-> R("i", [k \in 1..n |-> IF real(lst[k]) THEN Oct(c, lst[k]).son[ind] ELSE 0], "son")]
     \o [ind \in 1..tw |-> R("i", Rep(n, dom), "cpu_map")]
     \o [ind \in 1..tw |-> R("i", Rep(n, 0), "flag1")]
AmrRecords(c, f) == AmrHeader(c, f) \o Cat([l \in 1..c.levelmax |-> Cat([dom \in 1..Ndom(c) |-> AmrBlock(c, f, l, dom)])])

\* ------------------------------------------------------------------ hydro / grav / rt files
VarBlocks(c, f, kind, nv) ==
  LET tw == TwoToNdim(c)
      blk(l, dom) == LET lst == Held(c, f, l, dom)  n == Len(lst) IN
         << R("i", <<l>>, "ilevel"), R("i", <<n>>, "ncache") >>
         \o (IF n = 0 THEN <<>> ELSE
             Cat([ind \in 1..tw |-> [v \in 1..nv |-> R("d", [k \in 1..n |-> IF lst[k] # 0 THEN Tok(kind, lst[k], ind - 1, v) + Ghost(c, f, lst[k]) ELSE 999999], "var")]]))
  IN Cat([l \in 1..c.levelmax |-> Cat([dom \in 1..Ndom(c) |-> blk(l, dom)])])
HydroRecords(c, f) ==
  << R("i", <<c.ncpu>>, "ncpu"), R("i", <<Len(c.hydro)>>, "nvar"), R("i", <<c.ndim>>, "ndim"), R("i", <<c.levelmax>>, "nlevelmax"),
     R("i", <<c.nboundary>>, "nboundary"), R("q", <<<<7, 5>>>>, "gamma") >> \o VarBlocks(c, f, 0, Len(c.hydro))
GravVars(c) == <<"grav_potential">> \o [d \in 1..c.ndim |-> "grav_acceleration_" \o <<"x", "y", "z">>[d]]
GravRecords(c, f) ==
  << R("i", <<c.ncpu>>, "ncpu"), R("i", <<c.ndim + 1>>, "nvar"), R("i", <<c.levelmax>>, "nlevelmax"), R("i", <<c.nboundary>>, "nboundary") >>
  \o VarBlocks(c, f, 1, c.ndim + 1)
RtRecords(c, f) ==
  << R("i", <<c.ncpu>>, "ncpu"), R("i", <<Len(c.rt)>>, "nrtvar"), R("i", <<c.ndim>>, "ndim"), R("i", <<c.levelmax>>, "nlevelmax"),
     R("i", <<c.nboundary>>, "nboundary"), R("q", <<<<5, 3>>>>, "gamma") >> \o VarBlocks(c, f, 2, Len(c.rt))

\* ------------------------------------------------------------------ part file
PartRecords(c, f) ==
  LET n == c.part.count[f]  h == c.part.hdr IN
  << R("i", <<c.ncpu>>, "ncpu"), R("i", <<c.ndim>>, "ndim"), R("i", <<n>>, "npart"),
     R("b", Rep(h[1], 1), "localseed"), R("b", Rep(h[2], 2), "nstar_tot"), R("b", Rep(h[3], 3), "mstar_tot"),
     R("b", Rep(h[4], 4), "mstar_lost"), R("b", Rep(h[5], 5), "nsink") >>
  \o [v \in 1..Len(c.part.desc) |->
        LET ty == c.part.desc[v][2] IN
        R(ty, [j \in 1..n |-> IF ty = "b" THEN PByte(f, j, v) ELSE PTok(f, j, v)], "pvar")]

\* ------------------------------------------------------------------ what a load must return
\* A request (the abstract form of load()'s arguments):
\*   lv   : <<lo, hi>> level interval accepted by the level predicate (<<lo, hi, ex>>: all of lo..hi but ex < hi), or <<>>
\*   pos  : per axis <<lo, hi>> (closed interval on the lattice) or <<>> for no predicate on that axis
\*   val  : <<hydro variable index, threshold token, "gt"|"le">> or <<>>
\*   cpus : explicit cpu list or <<>>
\*   dxl  : <<lo, hi>> levels whose cell size the predicate on `dx` accepts, or <<>>. Unlike `lv` it is an ordinary
\*          predicate on a cell quantity: it does not truncate the tree, it only filters the leaves
\* (group / variable subsets and sortby are applied by the harness to the rows computed here: they are projections)
Lmax(c, req) == IF req.lv = <<>> THEN c.levelmax ELSE (IF req.lv[2] < c.levelmax THEN req.lv[2] ELSE c.levelmax)
IsLeaf(c, o, ind, lmax) == ~(Oct(c, o).son[ind] > 0 /\ Oct(c, o).level < lmax)
HydroTok(c, o, ind, v) == Tok(0, o, ind - 1, v)
Qualifies(c, req, o, ind) ==
  /\ req.lv = <<>> \/ (Oct(c, o).level >= req.lv[1] /\ Oct(c, o).level <= req.lv[2] /\ (Len(req.lv) < 3 \/ Oct(c, o).level # req.lv[3]))
  /\ \A d \in 1..c.ndim : req.pos[d] = <<>> \/ (CellPos(c, o, ind - 1, d) >= req.pos[d][1] /\ CellPos(c, o, ind - 1, d) <= req.pos[d][2])
  /\ req.val = <<>> \/ (IF req.val[3] = "gt" THEN HydroTok(c, o, ind, req.val[1]) > req.val[2] ELSE HydroTok(c, o, ind, req.val[1]) <= req.val[2])
  /\ req.dxl = <<>> \/ (Oct(c, o).level >= req.dxl[1] /\ Oct(c, o).level <= req.dxl[2])
CpuSeq(c, req) == IF req.cpus = <<>> THEN [f \in 1..c.ncpu |-> f] ELSE req.cpus
\* rows in loader order: files, levels, cells of an oct block (ind-major)
Rows(c, req) ==
  LET lmax == Lmax(c, req)  cpus == CpuSeq(c, req) IN
  Cat([fi \in 1..Len(cpus) |-> LET f == cpus[fi] IN Cat([l \in 1..lmax |->
     LET lst == Held(c, f, l, f) IN
     Cat([ind \in 1..TwoToNdim(c) |->
        LET sel == SelectSeq(lst, LAMBDA o : IsLeaf(c, o, ind, lmax) /\ Qualifies(c, req, o, ind)) IN
        [k \in 1..Len(sel) |-> [level |-> l, cpu |-> f, o |-> sel[k], ind |-> ind,
                                pos |-> [d \in 1..c.ndim |-> CellPos(c, sel[k], ind - 1, d)],
                                hydro |-> [v \in 1..Len(c.hydro) |-> Tok(0, sel[k], ind - 1, v)],
                                grav |-> IF c.grav THEN [v \in 1..c.ndim + 1 |-> Tok(1, sel[k], ind - 1, v)] ELSE <<>>,
                                rt |-> [v \in 1..Len(c.rt) |-> Tok(2, sel[k], ind - 1, v)]]]])])])
PartRows(c, req) ==
  IF ~c.haspart THEN <<>> ELSE
  LET cpus == CpuSeq(c, req) IN
  Cat([fi \in 1..Len(cpus) |-> LET f == cpus[fi] IN
       [j \in 1..c.part.count[f] |-> [cpu |-> f, v |-> [v \in 1..Len(c.part.desc) |-> IF c.part.desc[v][2] = "b" THEN PByte(f, j, v) ELSE PTok(f, j, v)]]]])
\* ---- Hilbert-ordered 3-D outputs: ownership follows the bound keys, and the loader pre-selects files
FatherKey(c, o) == LET KB == c.levelmax + 1 IN
   IF Oct(c, o).father = 0 THEN Key(S(c) \div 2, S(c) \div 2, S(c) \div 2, KB)
   ELSE LET f == Oct(c, o).father  ind == Oct(c, o).fcell IN Key(CellPos(c, f, ind, 1), CellPos(c, f, ind, 2), CellPos(c, f, ind, 3), KB)
HilbertConsistent(c) == c.hilbert3 => \A o \in 1..Len(c.octs) : c.bk[Oct(c, o).owner] <= FatherKey(c, o) /\ FatherKey(c, o) < c.bk[Oct(c, o).owner + 1]
HasPos(req) == \E d \in 1..3 : req.pos[d] # <<>>
BoxOf(c, req) == [d \in 1..3 |-> IF req.pos[d] = <<>> THEN <<0, Pow2(c.levelmax) - 1>> ELSE <<req.pos[d][1] \div 2, req.pos[d][2] \div 2 - 1>>]
\* the list the (repaired) algorithm computes (Hilbert!CpuListRepaired); a pre-selection is sound iff it contains Needed
CodeCpus(c, req) == IF c.hilbert3 /\ HasPos(req) /\ req.cpus = <<>> THEN CpuListRepaired(BoxOf(c, req), c.levelmax, Lmax(c, req), c.bk) ELSE 1..c.ncpu
SLevel(c, req) == IF c.hilbert3 /\ HasPos(req) THEN SearchLevel(BoxOf(c, req), c.levelmax, Lmax(c, req)) ELSE 0

\* owners of the cells that qualify (the files a pre-selection must not drop)
Needed(c, req) == {Rows(c, [req EXCEPT !.cpus = <<>>])[k].cpu : k \in 1..Len(Rows(c, [req EXCEPT !.cpus = <<>>]))}

\* C04 at the level of the specification: on every generated output and request the repaired list keeps every needed file
PreselectionKeepsNeeded(c) == c.hilbert3 => \A q \in 1..Len(c.reqs) : Needed(c, c.reqs[q]) \subseteq CodeCpus(c, c.reqs[q])

\* ------------------------------------------------------------------ structural invariants of a configuration
RECURSIVE SumVol(_, _)
SumVol(c, rows) == IF rows = <<>> THEN 0 ELSE Pow2(c.ndim * (c.levelmax - Head(rows).level)) + SumVol(c, Tail(rows))
NoReq == [lv |-> <<>>, pos |-> <<<<>>, <<>>, <<>>>>, val |-> <<>>, cpus |-> <<>>, dxl |-> <<>>]
LvReq(l) == [NoReq EXCEPT !.lv = <<1, l>>]
\* the leaves of the tree truncated at any level tile the box exactly once
Tiling(c) == \A l \in 1..c.levelmax : SumVol(c, Rows(c, LvReq(l))) = Pow2(c.ndim * c.levelmax)
Overlap(c, a, b) == \A d \in 1..c.ndim : LET ha == Pow2(c.levelmax - a.level)  hb == Pow2(c.levelmax - b.level)
                                         IN a.pos[d] - ha < b.pos[d] + hb /\ b.pos[d] - hb < a.pos[d] + ha
NoOverlap(c) == \A l \in 1..c.levelmax : LET rows == Rows(c, LvReq(l)) IN
                   \A i, j \in 1..Len(rows) : i < j => ~Overlap(c, rows[i], rows[j])
\* every oct is held by its owner's file, and the tree links are consistent
WellFormed(c) ==
  /\ \A o \in 1..Len(c.octs) : \E k \in 1..Len(c.held[Oct(c, o).owner]) : c.held[Oct(c, o).owner][k] = o
  /\ \A o \in 1..Len(c.octs) : Oct(c, o).father # 0 =>
        /\ Oct(c, Oct(c, o).father).level = Oct(c, o).level - 1
        /\ Oct(c, Oct(c, o).father).son[Oct(c, o).fcell + 1] = o
  /\ \A o \in 1..Len(c.octs), ind \in 1..TwoToNdim(c) : Oct(c, o).son[ind] # 0 => Oct(c, Oct(c, o).son[ind]).father = o
\* each leaf once: the (oct, cell) pairs of the full load are distinct and are exactly the unrefined cells
EachLeafOnce(c) == LET rows == Rows(c, NoReq) IN
  /\ Cardinality({<<rows[k].o, rows[k].ind>> : k \in 1..Len(rows)}) = Len(rows)
  /\ {<<rows[k].o, rows[k].ind>> : k \in 1..Len(rows)} = {p \in (1..Len(c.octs)) \X (1..TwoToNdim(c)) : Oct(c, p[1]).son[p[2]] = 0}

\* byte offset of record k of a record list
SizeOf(t) == CASE t = "i" -> 4 [] t = "d" -> 8 [] t = "q" -> 8 [] t = "s" -> 1 [] t = "b" -> 1
RECURSIVE StartOf(_, _)
StartOf(recs, k) == IF k = 1 THEN 0 ELSE StartOf(recs, k - 1) + 8 + Len(recs[k - 1].v) * SizeOf(recs[k - 1].t)
Starts(recs) == LET RECURSIVE Go(_, _, _)
                    Go(k, off, acc) == IF k > Len(recs) THEN acc ELSE Go(k + 1, off + 8 + Len(recs[k].v) * SizeOf(recs[k].t), Append(acc, off))
                IN Go(1, 0, <<>>)

\* ------------------------------------------------------------------ evaluation of one configuration
Files(c, f) == [amr |-> AmrRecords(c, f), hydro |-> HydroRecords(c, f),
                grav |-> IF c.grav THEN GravRecords(c, f) ELSE <<>>,
                rt |-> IF Len(c.rt) > 0 THEN RtRecords(c, f) ELSE <<>>,
                part |-> IF c.haspart THEN PartRecords(c, f) ELSE <<>>]
Slim(rows) == [k \in 1..Len(rows) |-> [l |-> rows[k].level, c |-> rows[k].cpu, p |-> rows[k].pos, h |-> rows[k].hydro, g |-> rows[k].grav, r |-> rows[k].rt]]
Out(i) == LET c == Cfgs[i] IN
   [files |-> [f \in 1..c.ncpu |-> Files(c, f)], S |-> S(c),
    exp |-> [q \in 1..Len(c.reqs) |-> [rows |-> Slim(Rows(c, c.reqs[q])), part |-> PartRows(c, c.reqs[q]),
                                       lmax |-> Lmax(c, c.reqs[q]), needed |-> Needed(c, c.reqs[q]),
                                       codecpus |-> CodeCpus(c, c.reqs[q]), slevel |-> SLevel(c, c.reqs[q])]]]

\* one state per configuration; 16 lanes so that the workers share the configurations
VARIABLES lane, i
NL == 16
Init == lane = 0 /\ i = 0
Next == \/ lane = 0 /\ lane' \in 1..NL /\ i' = 0
        \/ lane > 0 /\ i = 0 /\ lane' = lane /\ i' \in {k \in 1..Len(Cfgs) : k % NL = lane % NL}
Inv == i > 0 =>
       /\ WellFormed(Cfgs[i])
       /\ Tiling(Cfgs[i])
       /\ NoOverlap(Cfgs[i])
       /\ EachLeafOnce(Cfgs[i])
       /\ HilbertConsistent(Cfgs[i])
       /\ PreselectionKeepsNeeded(Cfgs[i])
Emit == i > 0 => JsonSerialize(IOEnv.OUT_DIR \o "/" \o ToString(i) \o ".json", Out(i))
====
