---- MODULE VectorMachine ----
(* Vectors as the component-wise lifting of Arrays (C09).  A Vector operation is DEFINED here as the Array
   operation of ArrayMachine applied to every component, with a non-Vector right operand replicated to all
   components and a Vector right operand required to have the same number of components.  norm, dot and cross are
   defined on exact integers and their algebraic laws are checked by TLC over all integer vectors in (-2..2)^3;
   the unit of dot/cross is the product of the operand units as a physical quantity.
   TLC enumerates the lattice (component counts x operand kinds x unit relations x operators) and emits it; the
   harness executes each case and compares every component with the real Array operation AND with exact values. *)
EXTENDS ArrayRules

VOps == Arith \cup Cmp
VRhsKinds == {"vec", "arr", "int", "float", "npnum", "nd1", "qty"}        \* npnum: a numpy scalar that is no Python number (np.float32, np.int64)
VPool == {IdxOf("1"), IdxOf("m"), IdxOf("cm"), IdxOf("s"), IdxOf("au"), IdxOf("km")}
\* outcome of a lifted binary operation: raises iff the counts differ or the component operation raises
VOutcome(c) ==
  IF c.rk = "vec" /\ c.nl # c.nr THEN [raises |-> TRUE, why |-> "components"]
  ELSE LET comp == Outcome([op |-> c.op, lu |-> c.lu, ru |-> c.ru, rk |-> IF c.rk = "vec" THEN "arr" ELSE IF c.rk = "npnum" THEN "float" ELSE c.rk, ls |-> "s2", rs |-> IF c.rk \in {"int", "float", "npnum"} THEN "s0" ELSE "s2",
                             ldt |-> "f8", rdt |-> "f8", fam |-> "units"])
       IN IF comp.raises THEN comp ELSE [comp EXCEPT !.shape = "s2"] @@ [nvec |-> c.nl]
VRaises(c) == c.nl # c.nr \/ (c.op = "cross" /\ c.nl # 3)
VCases == {[fam |-> "vbin", op |-> op, nl |-> nl, nr |-> nr, rk |-> "vec", lu |-> i, ru |-> j] : op \in VOps, nl \in 1..3, nr \in 1..3, i \in VPool, j \in VPool}
          \cup {[fam |-> "vbin", op |-> op, nl |-> nl, nr |-> 0, rk |-> rk, lu |-> i, ru |-> j] : op \in VOps, nl \in 1..3, rk \in VRhsKinds \ {"vec"}, i \in VPool, j \in VPool}
          \cup {[fam |-> "vun", op |-> op, nl |-> nl, lu |-> i] : op \in {"neg", "pow2", "powm1f", "sqrt", "abs", "rmul2", "rdiv2", "to_cm", "to_cm0", "norm", "isfinite", "sum", "concatenate", "slice", "copy"}, nl \in 1..3, i \in VPool}
          \cup {[fam |-> "vprod", op |-> op, nl |-> nl, nr |-> nr, lu |-> i, ru |-> j] : op \in {"dot", "cross"}, nl \in {3}, nr \in {3}, i \in VPool, j \in VPool}
          \cup {[fam |-> "vprod", op |-> "dot", nl |-> nl, nr |-> nl, lu |-> i, ru |-> j] : nl \in 1..2, i \in {IdxOf("m")}, j \in {IdxOf("m"), IdxOf("cm")}}
          \* numpy functions of two Vectors / of a sequence of Vectors: component-wise, operands with different counts rejected
          \cup {[fam |-> "vnp2", op |-> f, nl |-> nl, nr |-> nr, lu |-> IdxOf("m"), ru |-> j] : f \in {"add", "multiply", "maximum", "less", "concatenate"}, nl \in 1..3, nr \in 1..3, j \in {IdxOf("m"), IdxOf("cm")}}
          \* dot of operands with different counts is rejected
          \cup {[fam |-> "vprod", op |-> "dot", nl |-> nl, nr |-> nr, lu |-> IdxOf("m"), ru |-> IdxOf("m")] : nl \in 1..3, nr \in 1..3}
          \* shapes and dtypes: 0-d with n-d operands in both orders, integer and float components mixed
          \cup {[fam |-> "vmix", op |-> op, nl |-> 3, sh |-> sh, dt |-> dt, lu |-> IdxOf("m"), ru |-> IdxOf("cm")] : op \in {"dot", "cross", "norm"}, sh \in {"0n", "n0", "nn", "00"}, dt \in {"ff", "if", "fi", "ii"}}
\* unit of dot / cross: the product of the operand units as a physical quantity (dimension of the product)
ProdDim(c) == DAdd(Dim(PU(c.lu)), Dim(PU(c.ru)))

\* ---- exact vector algebra and its laws
V3 == (-2..2) \X (-2..2) \X (-2..2)
Dot(a, b) == a[1] * b[1] + a[2] * b[2] + a[3] * b[3]
Cross(a, b) == <<a[2] * b[3] - a[3] * b[2], a[3] * b[1] - a[1] * b[3], a[1] * b[2] - a[2] * b[1]>>
Norm2(a) == Dot(a, a)
Laws == \A a \in V3 : \A b \in V3 :
          /\ Dot(a, b) = Dot(b, a)
          /\ Cross(a, b) = <<-Cross(b, a)[1], -Cross(b, a)[2], -Cross(b, a)[3]>>
          /\ Dot(a, Cross(a, b)) = 0 /\ Dot(b, Cross(a, b)) = 0
          /\ Norm2(Cross(a, b)) + Dot(a, b) * Dot(a, b) = Norm2(a) * Norm2(b)
          /\ Norm2(a) >= 0 /\ (Norm2(a) = 0 <=> a = <<0, 0, 0>>)
ASSUME Laws

VARIABLES vlane, vcase
vvars == <<vlane, vcase>>
VInit == vlane = 0 /\ vcase = NoCase
VNext == \/ vlane = 0 /\ vlane' \in 1..NL /\ vcase' = NoCase
         \/ vlane > 0 /\ vcase = NoCase /\ vlane' = vlane /\ vcase' \in {c \in VCases : (c.lu * 7 + c.nl) % NL = vlane - 1}
\* lifting law at the level of the specification: a lifted operation raises iff counts differ or its component operation raises,
\* and every component of the result has the unit of the component operation
LiftingLaw == vcase.fam = "vbin" =>
   LET o == VOutcome(vcase) IN
   /\ (vcase.rk = "vec" /\ vcase.nl # vcase.nr) => o.raises
   /\ (vcase.rk # "vec" \/ vcase.nl = vcase.nr) =>
        o.raises = (Strict(vcase.op) /\ ~Compatible(PU(vcase.lu), IF vcase.rk \in {"vec", "arr", "qty"} THEN PU(vcase.ru) ELSE Unit0))
VEmit == vcase.fam = "none" \/ PrintT(ToJson([c |-> vcase, o |-> IF vcase.fam = "vbin" THEN VOutcome(vcase) ELSE [raises |-> IF vcase.fam \in {"vnp2", "vprod"} THEN VRaises(vcase) ELSE FALSE],
                                               names |-> [l |-> PN(vcase.lu), r |-> IF "ru" \in DOMAIN vcase THEN PN(vcase.ru) ELSE ""]]))
====
