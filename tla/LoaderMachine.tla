---- MODULE LoaderMachine ----
(* Call histories of load() on one RamsesDataset (C15).  The only state a dataset is meant to carry from one
   call to the next is the groups it holds and the two counters in its metadata; everything else (reader
   objects, variable tables, piece lists, the CPU list of a positional selection, the level cap) is per call.
   The specification therefore records, for every group, WHICH call of the history produced its current
   content; the binding requires the real dataset to hold exactly Fresh(that call) for every group, whatever
   came before.  TLC enumerates all histories over the classes of calls up to Depth and emits them. *)
EXTENDS Integers, Sequences, FiniteSets, TLC, Json
CONSTANTS Depth, HasPart, HasSink
Groups == {"mesh", "part", "sink"}
Classes == {"full", "level", "value", "position", "position_cpus", "cpus", "g_mesh", "g_part", "g_mesh_part", "g_sink", "off_part", "off_mesh",
            "vars_mesh", "vars_part", "sort_mesh", "sort_part", "sort_sink", "sortx_part"}      \* sortx_part: loads the particles only, its sortby also names the mesh
\* groups a call of class k (re)produces
\* the sink table (a CSV next to the cpu files) is parsed anew by every call that does not exclude the group
Produces(k) ==
  LET cpu == IF HasPart THEN {"mesh", "part"} ELSE {"mesh"}
      sink == IF HasSink THEN {"sink"} ELSE {} IN
  CASE k \in {"g_mesh"}              -> {"mesh"}
    [] k \in {"g_part", "sortx_part"} -> cpu \cap {"part"}
    [] k = "g_mesh_part"             -> cpu
    [] k = "g_sink"                  -> sink
    [] k \in {"off_part"}            -> {"mesh"} \cup sink
    [] k \in {"off_mesh"}            -> (cpu \cap {"part"}) \cup sink
    [] OTHER                         -> cpu \cup sink
VARIABLES src,     \* group -> position in hist of the call whose Fresh result the group must equal (0: absent)
          counted, \* counter -> position in hist of the call it must describe (0: initial value 0)
          hist
vars == <<src, counted, hist>>
Init == src = [g \in Groups |-> 0] /\ counted = [c \in {"ncells", "nparticles"} |-> 0] /\ hist = <<>>
Load(k) == /\ Len(hist) < Depth
           /\ hist' = Append(hist, k)
           /\ src' = [g \in Groups |-> IF g \in Produces(k) THEN Len(hist) + 1 ELSE src[g]]
           /\ counted' = [c \in {"ncells", "nparticles"} |->
                            IF (c = "ncells" /\ "mesh" \in Produces(k)) \/ (c = "nparticles" /\ "part" \in Produces(k)) THEN Len(hist) + 1 ELSE counted[c]]
Next == \E k \in Classes : Load(k)
\* every group present is attributed to the most recent call that produces it, and to no later one
Attribution == \A g \in Groups :
   /\ src[g] # 0 => (\E j \in DOMAIN hist : j = src[g] /\ g \in Produces(hist[j])) /\ \A j \in DOMAIN hist : j > src[g] => g \notin Produces(hist[j])
   /\ src[g] = 0 => \A j \in DOMAIN hist : g \notin Produces(hist[j])
\* nothing else distinguishes two histories: the state is a function of the attribution alone
Emit == hist = <<>> \/ PrintT(ToJson([h |-> hist, src |-> src, counted |-> counted]))
====
