---- MODULE ArrayRules ----
(* The unit/dtype algebra of osyris.Array as a case lattice: every Python operator, comparison, logical operator,
   conversion and catalogued numpy function, applied to operands drawn from a pool of units (one per dimension
   family plus compatible-but-different and incompatible partners), dtypes, operand kinds and shapes.
   TLC enumerates the lattice (Next), computes the discrete outcome of each case (does it raise, the unit of the
   result, boolean or numeric, the exact conversion factor) from the RULE the properties state, checks the
   algebraic invariants of that rule, and emits every case.  The harness executes each case on real Arrays with
   several value sets and compares unit, exception, dtype kind, shape and values (exact Fractions).
   Decides C02, C07, C08, C10. *)
EXTENDS Units, TLC, Json

\* ---- the unit pool: label -> unit
UCm3 == UPow(U1("cm"), 3)
PoolSeq == << [n |-> "1", u |-> Unit0], [n |-> "m", u |-> U1("m")], [n |-> "cm", u |-> U1("cm")], [n |-> "km", u |-> U1("km")],
              [n |-> "s", u |-> U1("s")], [n |-> "min", u |-> U1("min")], [n |-> "g", u |-> U1("g")], [n |-> "kg", u |-> U1("kg")],
              [n |-> "m/s", u |-> UDiv(U1("m"), U1("s"))], [n |-> "km/h", u |-> UDiv(U1("km"), U1("h"))],
              [n |-> "g/cm3", u |-> UDiv(U1("g"), UCm3)], [n |-> "kg/m3", u |-> UDiv(U1("kg"), UPow(U1("m"), 3))],
              [n |-> "erg", u |-> U1("erg")], [n |-> "J", u |-> U1("J")], [n |-> "K", u |-> U1("K")],
              [n |-> "au", u |-> U1("au")], [n |-> "pc", u |-> U1("pc")], [n |-> "M_sun", u |-> U1("M_sun")], [n |-> "yr", u |-> U1("yr")],
              [n |-> "L_sun", u |-> U1("L_sun")], [n |-> "W", u |-> U1("W")], [n |-> "m2", u |-> UPow(U1("m"), 2)], [n |-> "cm3", u |-> UCm3],
              [n |-> "m/cm", u |-> UDiv(U1("m"), U1("cm"))],         \* a scaled dimensionless unit (= 100)
              \* volumes whose CGS values (3e55, 3e39) lie outside the float32 range while their ratio (9e15) does not
              [n |-> "pc3", u |-> UPow(U1("pc"), 3)], [n |-> "au3", u |-> UPow(U1("au"), 3)] >>
NPool == Len(PoolSeq)
PU(i) == PoolSeq[i].u
PN(i) == PoolSeq[i].n
IdxOf(label) == CHOOSE i \in 1..NPool : PoolSeq[i].n = label
SmallPool == {IdxOf("1"), IdxOf("m"), IdxOf("cm"), IdxOf("s"), IdxOf("M_sun"), IdxOf("g"), IdxOf("m/cm")}

Arith == {"add", "sub", "mul", "div"}
Cmp   == {"lt", "le", "gt", "ge", "eq", "ne"}
Logic == {"and", "or", "xor"}
Dts   == {"f8", "f4", "i8", "i4"}
RhsKinds == {"arr", "int", "float", "nd0", "nd1", "qty"}
Shapes == {"s0", "s2", "s12", "s22", "s21", "s3"}          \* (), (2,), (1,2), (2,2), (2,1), (3,)
\* numpy broadcasting of the two operand shapes: result shape or "err"
Bcast(a, b) ==
  IF a = b THEN a ELSE IF a = "s0" THEN b ELSE IF b = "s0" THEN a
  ELSE CASE {a, b} = {"s2", "s12"} -> "s12" [] {a, b} = {"s2", "s22"} -> "s22" [] {a, b} = {"s12", "s22"} -> "s22"
         [] {a, b} = {"s2", "s21"} -> "s22" [] {a, b} = {"s21", "s22"} -> "s22" [] {a, b} = {"s12", "s21"} -> "s22" [] {a, b} = {"s21", "s3"} -> "s23"
         [] OTHER -> "err"

\* ---- the rule
RhsUnitOf(c) == IF c.rk \in {"arr", "qty"} THEN PU(c.ru) ELSE Unit0        \* numbers and ndarrays carry no unit
Strict(op) == op \in {"add", "sub"} \cup Cmp \cup Logic
Converts(c) == Compatible(PU(c.lu), RhsUnitOf(c))
ResultUnit(c) ==
  LET u == PU(c.lu)  v == IF Converts(c) THEN u ELSE RhsUnitOf(c) IN
  CASE c.op \in {"add", "sub"} -> u
    [] c.op = "mul" -> UMul(u, v)
    [] c.op = "div" -> UDiv(u, v)
    [] c.op \in Cmp \cup Logic -> Unit0
Outcome(c) ==
  IF Strict(c.op) /\ ~Converts(c) THEN [raises |-> TRUE, why |-> "dimension"]
  ELSE IF Bcast(c.ls, c.rs) = "err" THEN [raises |-> TRUE, why |-> "shape"]
  ELSE [raises |-> FALSE, unit |-> Sparse(ResultUnit(c)), bool |-> c.op \in Cmp \cup Logic, shape |-> Bcast(c.ls, c.rs),
        \* the right operand is multiplied by conv before the operation (exact for metric units; the harness'
        \* independent table is used for astrophysical ones and cross-checked against this value otherwise)
        conv |-> IF Converts(c) /\ AllMetric(PU(c.lu)) /\ AllMetric(RhsUnitOf(c)) THEN Ratio(RhsUnitOf(c), PU(c.lu)) ELSE <<>>,
        converted |-> Converts(c) /\ RhsUnitOf(c) # PU(c.lu)]

\* unary / scalar-argument operators
UnOps == {"neg", "pow2", "pow2f", "powm1f", "pow2nd", "pow2q", "pow2s", "pow3a", "powdim", "raddnd", "rsubnd", "rltnd", "pow3", "pow0", "powm1", "powm2", "sqrt", "rmul2", "rmulf", "rdiv2", "rdivf", "rdivnd", "rmulnd", "invert"}
UnOutcome(op, i) ==
  LET u == PU(i) IN
  CASE op = "neg" -> [raises |-> FALSE, unit |-> Sparse(u), bool |-> FALSE]
    [] op \in {"pow2", "pow2f", "pow2nd", "pow2q", "pow2s"} -> [raises |-> FALSE, unit |-> Sparse(UPow(u, 2)), bool |-> FALSE]       \* pow2nd: the exponent is a 0-d ndarray, pow2q: a dimensionless pint Quantity, pow2s: the Array 0.02 m/cm (a scaled dimensionless unit: the number 2)
    [] op = "powdim" -> [raises |-> TRUE, why |-> "exponent carries a dimension"]                               \* exponent = Array in s
    [] op \in {"pow3", "pow3a"} -> [raises |-> FALSE, unit |-> Sparse(UPow(u, 3)), bool |-> FALSE]
    [] op = "pow0" -> [raises |-> FALSE, unit |-> Sparse(Unit0), bool |-> FALSE]
    [] op \in {"powm1", "powm1f"} -> [raises |-> FALSE, unit |-> Sparse(UPow(u, -1)), bool |-> FALSE]
    [] op = "powm2" -> [raises |-> FALSE, unit |-> Sparse(UPow(u, -2)), bool |-> FALSE]
    [] op = "sqrt" -> IF URootOk(u, 2) THEN [raises |-> FALSE, unit |-> Sparse(URoot(u, 2)), bool |-> FALSE] ELSE [raises |-> FALSE, unit |-> <<"fractional">>, bool |-> FALSE]
    [] op \in {"rmul2", "rmulf", "rmulnd"} -> [raises |-> FALSE, unit |-> Sparse(u), bool |-> FALSE]
    [] op \in {"rdiv2", "rdivf", "rdivnd"} -> [raises |-> FALSE, unit |-> Sparse(UInv(u)), bool |-> FALSE]
    \* a plain ndarray / numpy scalar on the LEFT of +, - or < reaches the Array through its ufunc hook: a number is a
    \* dimensionless quantity, so the operation is refused unless the Array is dimensionless (possibly scaled: m/cm)
    [] op \in {"raddnd", "rsubnd"} -> IF Compatible(u, Unit0) THEN [raises |-> FALSE, unit |-> Sparse(u), bool |-> FALSE] ELSE [raises |-> TRUE, why |-> "dimension"]
    [] op = "rltnd" -> IF Compatible(u, Unit0) THEN [raises |-> FALSE, unit |-> Sparse(Unit0), bool |-> TRUE] ELSE [raises |-> TRUE, why |-> "dimension"]
    [] op = "invert" -> [raises |-> FALSE, unit |-> Sparse(Unit0), bool |-> TRUE]

\* conversion a.to(v)
ToOutcome(i, j) ==
  IF ~Compatible(PU(i), PU(j)) THEN [raises |-> TRUE, why |-> "dimension"]
  ELSE [raises |-> FALSE, unit |-> Sparse(PU(j)), same |-> PU(i) = PU(j),
        conv |-> IF AllMetric(PU(i)) /\ AllMetric(PU(j)) THEN Ratio(PU(i), PU(j)) ELSE <<>>]

\* ---- numpy catalogue (C10)
Keep1 == {"sum", "mean", "amin", "amax", "min", "max", "abs", "absolute", "fabs", "negative", "positive", "median", "std", "cumsum", "sort",
          "diff", "nansum", "nanmin", "nanmax", "nanmean", "round", "floor", "ceil", "flip", "roll", "ptp", "squeeze", "ravel", "copy",
          "sum_axis0", "mean_axis1k", "sum_axis_pos", "amax_axis0", "cumsum_axis1", "sort_axis0", "std_axis0", "sum_out0", "mean_out0", "amax_out0",
          "sum_outn", "amax_axis0_outn", "sort_axisn", "mean_axisn"}     \* one Array argument (last ones: keyword forms; outn / axisn: the keyword given explicitly as None)
Keep2 == {"add", "subtract", "maximum", "minimum", "hypot", "fmax", "fmin"}                        \* two operands, result in the first one's unit
KeepSeq == {"concatenate", "stack", "hstack", "vstack"}                                            \* a sequence of Arrays
Pred1 == {"isfinite", "isnan", "isinf", "logical_not", "signbit"}
Index1 == {"argsort", "argmax", "argmin", "count_nonzero"}        \* positions and counts (documented: np.argmax(density); used by sortby): pure numbers
Pred2 == {"less", "less_equal", "greater", "greater_equal", "equal", "not_equal"}
Trans1 == {"sqrt", "square", "cbrt", "reciprocal", "power_int2", "power_nd2", "power_nd3", "power_q2", "power_a3", "power_s2", "power_ndv", "power_nd1e"}        \* np.power with a Python int / 0-d ndarray exponent
Trans2 == {"multiply", "divide", "true_divide"}
NpOutcome(c) ==
  LET u == PU(c.lu)  v == IF c.rk \in {"arr", "qty"} THEN PU(c.ru) ELSE Unit0 IN
  CASE c.f \in Keep1 -> [raises |-> FALSE, unit |-> Sparse(u), bool |-> FALSE]
    [] c.f \in Pred1 -> [raises |-> FALSE, unit |-> Sparse(Unit0), bool |-> TRUE]
    [] c.f \in Index1 -> [raises |-> FALSE, unit |-> Sparse(Unit0), bool |-> FALSE]
    [] c.f = "sqrt" -> IF URootOk(u, 2) THEN [raises |-> FALSE, unit |-> Sparse(URoot(u, 2)), bool |-> FALSE] ELSE [raises |-> FALSE, unit |-> <<"fractional">>, bool |-> FALSE]
    [] c.f = "cbrt" -> IF URootOk(u, 3) THEN [raises |-> FALSE, unit |-> Sparse(URoot(u, 3)), bool |-> FALSE] ELSE [raises |-> FALSE, unit |-> <<"fractional">>, bool |-> FALSE]
    [] c.f \in {"square", "power_int2", "power_nd2", "power_q2", "power_s2", "power_nd1e"} -> [raises |-> FALSE, unit |-> Sparse(UPow(u, 2)), bool |-> FALSE]      \* (nd1e: the exponent as a one-element array)
    [] c.f \in {"power_nd3", "power_a3"} -> [raises |-> FALSE, unit |-> Sparse(UPow(u, 3)), bool |-> FALSE]
    [] c.f = "reciprocal" -> [raises |-> FALSE, unit |-> Sparse(UInv(u)), bool |-> FALSE]
    \* an exponent that differs from element to element (an ndarray with several values): only a pure number can be raised to it -
    \* the VALUE of a scaled dimensionless base (50 percent = 0.5, 3 m/cm = 300), not its raw magnitude
    [] c.f = "power_ndv" -> IF Compatible(u, Unit0) THEN [raises |-> FALSE, unit |-> Sparse(Unit0), bool |-> FALSE, scaled |-> TRUE]
                            ELSE [raises |-> TRUE, why |-> "exponent"]
    [] c.f \in Trans2 -> [raises |-> FALSE, bool |-> FALSE, conv |-> <<>>, converted |-> FALSE,
                          unit |-> Sparse(IF c.f = "multiply" THEN UMul(u, v) ELSE UDiv(u, v))]      \* no conversion: the product of the units is exact
    [] c.f \in Keep2 \cup Pred2 \cup KeepSeq ->
         \* operands carrying different units are converted (to the first one's unit) or the call raises; a plain
         \* ndarray / number operand is a dimensionless quantity (as for the operators)
         IF ~Compatible(u, v) THEN [raises |-> TRUE, why |-> "dimension"]
         ELSE [raises |-> FALSE, unit |-> Sparse(IF c.f \in Pred2 THEN Unit0 ELSE u), bool |-> c.f \in Pred2,
               conv |-> IF AllMetric(u) /\ AllMetric(v) THEN Ratio(v, u) ELSE <<>>, converted |-> v # u]

DAdd(a, b) == [d \in DOMAIN a |-> a[d] + b[d]]
DSub(a, b) == [d \in DOMAIN a |-> a[d] - b[d]]
NoCase == [fam |-> "none"]
NL == 16
====
