---- MODULE HistMachine ----
(* 2-D histogram (C05).  Two parts:
   (1) the accumulation kernel as a concurrent program.  Its STRUCTURE (is the loop over the points parallel, is the
       bin update an atomic accumulation or a read-modify-write on shared bins, how is the bin index rounded) is
       extracted from osyris/plot/utils.py by harness/extract_kernels.py and passed as constants, so TLC explores
       every assignment of points to workers and every interleaving of THE CODE'S structure: Conservation,
       EachPointOnce and schedule independence are decided for all schedules of a small scenario.
   (2) the binning function on explicit limits: points on an integer lattice, nx x ny bins, the expected table of
       counts per bin is computed exactly (floor division) and emitted for replay on the real kernel and on
       osyris.histogram2d under several thread counts. *)
EXTENDS Integers, Sequences, FiniteSets, TLC, Json

CONSTANTS Parallel,      \* the loop over the points is a prange under parallel=True
          AtomicUpdate,  \* FALSE: out[...] += v is load; add; store on a shared bin
          Rounding,      \* "floor" or "trunc"
          Workers        \* number of workers of the schedule model

\* ------------------------------------------------------------------ (2) binning on an integer lattice
\* index of coordinate x in a grid of n bins spanning [lo, hi): floor((x - lo) * n / (hi - lo)); -1 = outside
FloorDiv(a, b) == a \div b                         \* TLA+ \div rounds towards minus infinity (b > 0)
TruncDiv(a, b) == IF a >= 0 THEN a \div b ELSE -((-a) \div b)
RawIndex(x, lo, hi, n) == IF Rounding = "floor" THEN FloorDiv((x - lo) * n, hi - lo) ELSE TruncDiv((x - lo) * n, hi - lo)
SpecIndex(x, lo, hi, n) == FloorDiv((x - lo) * n, hi - lo)      \* what the property states
InRange(i, n) == i >= 0 /\ i < n

\* the scenario of the schedule model: x coordinates only (one row of bins), limits 0..8, 2 bins
\* two points in bin 0, one half a bin width below the range, one in bin 1
ModelPts == <<1, 3, -2, 5>>
ModelLo == 0
ModelHi == 8
ModelN == 2

VARIABLES owner,    \* point -> worker (chosen nondeterministically: any partition is a schedule)
          pc,       \* worker -> index into its list of points, and micro step
          reg,      \* worker -> loaded bin value (read-modify-write)
          counts,   \* bin -> accumulated count
          done      \* points fully processed
vars == <<owner, pc, reg, counts, done>>
NW == IF Parallel THEN Workers ELSE 1
Init == /\ owner \in [1..Len(ModelPts) -> 1..NW]
        /\ pc = [w \in 1..NW |-> [k |-> 1, step |-> "fetch"]]
        /\ reg = [w \in 1..NW |-> 0]
        /\ counts = [b \in 0..(ModelN - 1) |-> 0]
        /\ done = {}
Mine(w) == SelectSeq([i \in 1..Len(ModelPts) |-> i], LAMBDA i : owner[i] = w)
Cur(w) == Mine(w)[pc[w].k]
Bin(p) == RawIndex(ModelPts[p], ModelLo, ModelHi, ModelN)
Skip(w) == /\ pc[w].k <= Len(Mine(w)) /\ pc[w].step = "fetch" /\ ~InRange(Bin(Cur(w)), ModelN)
           /\ pc' = [pc EXCEPT ![w].k = @ + 1] /\ done' = done \cup {Cur(w)} /\ UNCHANGED <<owner, reg, counts>>
Accumulate(w) == /\ AtomicUpdate /\ pc[w].k <= Len(Mine(w)) /\ pc[w].step = "fetch" /\ InRange(Bin(Cur(w)), ModelN)
                 /\ counts' = [counts EXCEPT ![Bin(Cur(w))] = @ + 1]
                 /\ pc' = [pc EXCEPT ![w].k = @ + 1] /\ done' = done \cup {Cur(w)} /\ UNCHANGED <<owner, reg>>
Load(w) == /\ ~AtomicUpdate /\ pc[w].k <= Len(Mine(w)) /\ pc[w].step = "fetch" /\ InRange(Bin(Cur(w)), ModelN)
           /\ reg' = [reg EXCEPT ![w] = counts[Bin(Cur(w))]]
           /\ pc' = [pc EXCEPT ![w].step = "store"] /\ UNCHANGED <<owner, counts, done>>
Store(w) == /\ pc[w].k <= Len(Mine(w)) /\ pc[w].step = "store"
            /\ counts' = [counts EXCEPT ![Bin(Cur(w))] = reg[w] + 1]
            /\ pc' = [pc EXCEPT ![w] = [k |-> @.k + 1, step |-> "fetch"]] /\ done' = done \cup {Cur(w)} /\ UNCHANGED <<owner, reg>>
Next == \E w \in 1..NW : Skip(w) \/ Accumulate(w) \/ Load(w) \/ Store(w)
Finished == done = 1..Len(ModelPts)
\* the properties of the kernel, at termination
Expected == [b \in 0..(ModelN - 1) |-> Cardinality({p \in 1..Len(ModelPts) : SpecIndex(ModelPts[p], ModelLo, ModelHi, ModelN) = b})]
KernelCorrect == Finished => counts = Expected               \* each point once, in its floor bin, whatever the schedule
Conservation == Finished => counts[0] + counts[1] = Cardinality({p \in 1..Len(ModelPts) : InRange(SpecIndex(ModelPts[p], ModelLo, ModelHi, ModelN), ModelN)})

\* ------------------------------------------------------------------ (2) scenario tables (evaluated as constant expressions, emitted once)
PointSets == << <<1, 3, 5, 7>>, <<-1, 0, 4, 8, 9>>, <<2, 2, 2, 2, 2, 2>>, <<-4, -2, 12, 16>>, <<0, 1, 2, 3, 4, 5, 6, 7>>, <<>>, <<7>>, <<-3, 3, 3, 4, 11>> >>
Limits == << <<0, 8>>, <<-4, 12>>, <<2, 6>>, <<0, 4>> >>
Ns == <<1, 2, 4>>
Table(xs, ys, lx, ly, n) ==
  [iy \in 0..(n - 1) |-> [ix \in 0..(n - 1) |->
      Cardinality({p \in 1..Len(xs) : SpecIndex(xs[p], lx[1], lx[2], n) = ix /\ SpecIndex(ys[p], ly[1], ly[2], n) = iy})]]
Scenarios == {[xs |-> PointSets[a], ys |-> [p \in 1..Len(PointSets[a]) |-> PointSets[b][((p * 3) % Len(PointSets[b])) + 1]], lx |-> Limits[c], ly |-> Limits[d], n |-> Ns[e]] :
                a \in 1..Len(PointSets), b \in {1, 2, 5}, c \in 1..Len(Limits), d \in {1, 2}, e \in 1..Len(Ns)}
EmitScenarios == \A s \in Scenarios : PrintT(ToJson([s |-> s, counts |-> Table(s.xs, s.ys, s.lx, s.ly, s.n)]))
====
