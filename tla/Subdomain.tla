---- MODULE Subdomain ----
(* extract_sphere / extract_box (C16) as exact membership on an integer lattice.
   A dataset has groups; a group has rows with positions of its own, or borrows the positions of the mesh group when
   its row count matches, or has no usable position (ignored).  The result holds, per group, exactly the rows inside the
   region (sphere: |r|^2 < R^2, box: 2|offset_c| <= size_c on every axis); groups without a row inside are omitted.
   TLC enumerates group layouts x point sets x regions (rows exactly on the boundary included) and emits the expected
   row selection of every group. *)
EXTENDS Integers, Sequences, FiniteSets, TLC, Json
Pts == << << <<0,0,0>>, <<3,4,0>>, <<5,0,0>>, <<1,1,1>>, <<-6,2,1>>, <<2,-2,7>> >>,
          << <<1,0,0>>, <<0,2,0>>, <<0,0,3>>, <<4,4,4>> >>,
          << <<10,10,10>>, <<-10,3,2>>, <<6,8,0>>, <<0,6,8>>, <<7,0,0>>, <<3,0,4>> >>,
          << <<2,1,0>> >> >>
\* group kinds: own positions (index into Pts), "mesh" (borrows the mesh positions, same row count), "none" (different row count, ignored)
Layouts == { <<[name |-> "mesh", pos |-> 1]>>,
             <<[name |-> "mesh", pos |-> 1], [name |-> "part", pos |-> 2], [name |-> "hydro", pos |-> 0]>>,
             <<[name |-> "mesh", pos |-> 3], [name |-> "part", pos |-> 1], [name |-> "sink", pos |-> 4], [name |-> "extra", pos |-> -1]>>,
             <<[name |-> "mesh", pos |-> 2], [name |-> "part", pos |-> 3]>>,
             <<[name |-> "part", pos |-> 1], [name |-> "mesh", pos |-> 3]>>,         \* same row counts, own positions differ from the mesh's
             <<[name |-> "part", pos |-> 1], [name |-> "tags", pos |-> -2]>> }       \* no mesh at all: a group without positions (same row count as part) is ignored
Origins == {<<0,0,0>>, <<1,0,0>>, <<3,4,0>>}
Radii == {1, 5, 6, 13, 100}             \* 5 and 13: rows exactly on the sphere
Boxes == {<<2,2,2>>, <<10,8,2>>, <<12,16,16>>, <<200,200,200>>, <<6,8,0>>}      \* full sizes; rows exactly on a face
Sq(x) == x * x
AbsI(x) == IF x < 0 THEN -x ELSE x
\* nd: number of position components (a 2-D output has positions (x, y): the third coordinate of the lattice points, of the
\* origin and the third box size play no role)
InSphereN(p, o, r, nd) == Sq(p[1] - o[1]) + Sq(p[2] - o[2]) + (IF nd = 3 THEN Sq(p[3] - o[3]) ELSE 0) < Sq(r)
InBoxN(p, o, b, nd) == \A d \in 1..nd : 2 * AbsI(p[d] - o[d]) <= b[d]
InSphere(p, o, r) == InSphereN(p, o, r, 3)
InBox(p, o, b) == InBoxN(p, o, b, 3)
MeshPos(lay) == LET i == CHOOSE i \in 1..Len(lay) : lay[i].name = "mesh" IN lay[i].pos
PosOf(lay, g) == IF g.pos > 0 THEN Pts[g.pos] ELSE IF g.pos = 0 THEN Pts[MeshPos(lay)] ELSE <<>>      \* -1 / -2: a group without usable position
Rows(lay, g, inside(_)) == IF g.pos < 0 THEN <<>> ELSE SelectSeq([k \in 1..Len(PosOf(lay, g)) |-> k], LAMBDA k : inside(PosOf(lay, g)[k]))
Expected(lay, inside(_)) == [i \in 1..Len(lay) |-> [name |-> lay[i].name, rows |-> Rows(lay, lay[i], inside), present |-> Rows(lay, lay[i], inside) # <<>>]]
VARIABLE sc
Init == sc = [kind |-> "none"]
Next == sc.kind = "none" /\ \/ \E lay \in Layouts, o \in Origins, r \in Radii, nd \in {2, 3} : sc' = [kind |-> "sphere", lay |-> lay, o |-> o, r |-> r, nd |-> nd]
                            \/ \E lay \in Layouts, o \in Origins, b \in Boxes, nd \in {2, 3} : sc' = [kind |-> "box", lay |-> lay, o |-> o, b |-> b, nd |-> nd]
Exp == IF sc.kind = "sphere" THEN LET f(p) == InSphereN(p, sc.o, sc.r, sc.nd) IN Expected(sc.lay, f)
       ELSE LET f(p) == InBoxN(p, sc.o, sc.b, sc.nd) IN Expected(sc.lay, f)
\* every kept row is inside, every dropped row is not; groups are present iff they keep a row
Sound == sc.kind = "none" \/ \A i \in 1..Len(sc.lay) : LET g == sc.lay[i] e == Exp[i] IN
           g.pos >= 0 => \A k \in 1..Len(PosOf(sc.lay, g)) :
              (\E j \in 1..Len(e.rows) : e.rows[j] = k) <=> (IF sc.kind = "sphere" THEN InSphereN(PosOf(sc.lay, g)[k], sc.o, sc.r, sc.nd) ELSE InBoxN(PosOf(sc.lay, g)[k], sc.o, sc.b, sc.nd))
Emit == sc.kind = "none" \/ PrintT(ToJson([sc |-> sc, pts |-> [i \in 1..Len(sc.lay) |-> PosOf(sc.lay, sc.lay[i])], exp |-> Exp]))
====
