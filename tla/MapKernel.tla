---- MODULE MapKernel ----
(* The sampling kernel of map() (plot/utils.py: evaluate_on_grid) as a concurrent program (C03, "any scheduling").
   One worker per cell (prange over cells when Parallel), each worker stores its cell's value into every pixel whose
   sample point it contains or touches, ONE BUFFER ENTRY (layer row) AT A TIME - the store out[:, k, j, i] = values[:, n]
   is not atomic across rows.  Scenario: two cells A and B sharing a face, three pixels: pA strictly inside A, pB
   strictly inside B, pF on the common face; two layers.
   Checked for every interleaving:
     InsidePixelsDeterministic : pA shows A and pB shows B in every layer, whatever the schedule;
     FaceEntriesFromTouchingCells : every entry of pF is the value of A or of B (never garbage / never missing);
   and, as a documented non-property, TornFacePixelReachable: pF can end up with layer 1 from A and layer 2 from B
   (TLC must find such a state when Parallel; the comparer of harness/maps.py therefore accepts face pixels per entry). *)
EXTENDS Integers, Sequences, FiniteSets, TLC
CONSTANTS Parallel
Cells == {"A", "B"}
Pixels == {"pA", "pB", "pF"}
Layers == {1, 2}
Covers(c, p) == (c = "A" /\ p \in {"pA", "pF"}) \/ (c = "B" /\ p \in {"pB", "pF"})
Work(c) == {<<p, l>> \in Pixels \X Layers : Covers(c, p)}
VARIABLES out,      \* [pixel -> [layer -> value]] ; "nan" = not written
          todo,     \* cell -> set of <<pixel, layer>> stores still to do
          turn      \* serial execution order when ~Parallel
vars == <<out, todo, turn>>
Init == out = [p \in Pixels |-> [l \in Layers |-> "nan"]] /\ todo = [c \in Cells |-> Work(c)] /\ turn = "A"
Store(c) == /\ todo[c] # {}
            /\ (Parallel \/ turn = c)
            /\ \E w \in todo[c] :
                 /\ out' = [out EXCEPT ![w[1]][w[2]] = c]
                 /\ todo' = [todo EXCEPT ![c] = @ \ {w}]
            /\ turn' = IF ~Parallel /\ todo[c] = {CHOOSE w \in todo[c] : TRUE} /\ Cardinality(todo[c]) = 1 THEN "B" ELSE turn
Next == \E c \in Cells : Store(c)
Done == \A c \in Cells : todo[c] = {}
InsidePixelsDeterministic == Done => (\A l \in Layers : out["pA"][l] = "A" /\ out["pB"][l] = "B")
FaceEntriesFromTouchingCells == Done => \A l \in Layers : out["pF"][l] \in {"A", "B"}
NeverOverwritesInside == \A l \in Layers : out["pA"][l] \in {"nan", "A"} /\ out["pB"][l] \in {"nan", "B"}
\* expected to be VIOLATED when Parallel (a torn face pixel is reachable), to HOLD when serial
FacePixelFromOneCell == Done => out["pF"][1] = out["pF"][2]
====
