---- MODULE Rational ----
(* Exact arithmetic for the specifications: a number is <<num, den, e>> = num/den * 10^e in canonical
   form (den > 0, den coprime to 10 and to num, num not divisible by 10; zero is <<0,1,0>>).
   The decimal exponent keeps unit factors such as km/mm = 10^6 (squared, cubed) inside TLC's 32-bit
   integers.  Inputs of the scenarios are chosen so that mantissas stay below 2^31. *)
EXTENDS Integers

RECURSIVE Gcd(_, _)
Gcd(a, b) == IF b = 0 THEN a ELSE Gcd(b, a % b)
Abs(x) == IF x < 0 THEN -x ELSE x
RECURSIVE Pow10(_)
Pow10(n) == IF n <= 0 THEN 1 ELSE 10 * Pow10(n - 1)
RECURSIVE IPow(_, _)
IPow(b, n) == IF n <= 0 THEN 1 ELSE b * IPow(b, n - 1)

\* strip factors of 10 from a non-zero mantissa
RECURSIVE Strip10(_, _)
Strip10(n, e) == IF n % 10 = 0 THEN Strip10(n \div 10, e + 1) ELSE <<n, e>>
\* make the denominator coprime to 10: 1/2 = 5/10, 1/5 = 2/10
RECURSIVE DenFree(_, _, _)
DenFree(n, d, e) == IF d % 2 = 0 THEN DenFree(n * 5, d \div 2, e - 1)
                    ELSE IF d % 5 = 0 THEN DenFree(n * 2, d \div 5, e - 1)
                    ELSE <<n, d, e>>

RNorm(n, d, e) ==
  IF n = 0 THEN <<0, 1, 0>>
  ELSE LET s  == IF d < 0 THEN -1 ELSE 1
           g  == Gcd(Abs(n), Abs(d))
           n1 == s * (n \div g)
           d1 == Abs(d) \div g
           f  == DenFree(n1, d1, e)
           t  == Strip10(f[1], f[3])
       IN <<t[1], f[2], t[2]>>

RInt(k)    == RNorm(k, 1, 0)
RFrac(a,b) == RNorm(a, b, 0)
RZero == <<0, 1, 0>>
ROne  == <<1, 1, 0>>
RMul(a, b) == RNorm(a[1] * b[1], a[2] * b[2], a[3] + b[3])
RInv(a)    == RNorm(a[2], a[1], -a[3])
RDiv(a, b) == RMul(a, RInv(b))
RNeg(a)    == <<-a[1], a[2], a[3]>>
RIsZero(a) == a[1] = 0
\* bring two numbers to a common decimal exponent (the smaller one)
RAdd(a, b) ==
  IF a[1] = 0 THEN b ELSE IF b[1] = 0 THEN a ELSE
  LET e == IF a[3] < b[3] THEN a[3] ELSE b[3]
      an == a[1] * Pow10(a[3] - e)
      bn == b[1] * Pow10(b[3] - e)
  IN RNorm(an * b[2] + bn * a[2], a[2] * b[2], e)
RSub(a, b) == RAdd(a, RNeg(b))
RSign(a)   == IF a[1] > 0 THEN 1 ELSE IF a[1] < 0 THEN -1 ELSE 0
RLess(a, b) == RSign(RSub(a, b)) < 0
RLeq(a, b)  == RSign(RSub(a, b)) <= 0
RPow(a, k) == IF k >= 0 THEN RNorm(IPow(a[1], k), IPow(a[2], k), a[3] * k)
              ELSE RNorm(IPow(a[2], -k), IPow(a[1], -k), a[3] * k)
RIsInt(a) == a[2] = 1 /\ a[3] >= 0
====
