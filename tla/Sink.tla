---- MODULE Sink ----
(* The sink-particle CSV file (C14): a header line of column names, a line of unit expressions, one row per sink.
   A unit cell is "1" (dimensionless), a monomial in the code units m, l, t written with blanks ("m l**2 t**-1"),
   or the legacy bracket form naming a physical unit ("[M_sun]", "[1]").  Columns that are the x/y/z components
   of one quantity for the output's dimensionality are assembled into a vector.
   Scenarios are enumerated by TLC (Next), the expected group is computed here and emitted; the harness writes
   the CSV text, loads it with the real reader and compares. *)
EXTENDS Integers, Sequences, FiniteSets, TLC, Json

\* a column name is <<prefix, component, suffix>>; component "" for plain columns
N(p) == <<p, "", "">>
C(p, c) == <<p, c, "">>
Text(n) == n[1] \o n[2] \o n[3]
Comps(ndim) == SubSeq(<<"x", "y", "z">>, 1, ndim)
\* unit cells: <<"mono", em, el, et>> | <<"one">> | <<"legacy", unit name>> | <<"legacy1">>
Mono(a, b, c) == <<"mono", a, b, c>>
One == <<"one">>
Pw(s, e) == IF e = 0 THEN "" ELSE IF e = 1 THEN s ELSE s \o "**" \o ToString(e)
Join(a, b) == IF a = "" THEN b ELSE IF b = "" THEN a ELSE a \o " " \o b
CellText(u) == CASE u[1] = "one" -> "1"
                 [] u[1] = "legacy1" -> "[1]"
                 [] u[1] = "legacy" -> "[" \o u[2] \o "]"
                 [] u[1] = "mono" -> Join(Join(Pw("m", u[2]), Pw("l", u[3])), Pw("t", u[4]))

ColumnSets(ndim) ==
  LET pos == [i \in 1..ndim |-> [n |-> C("", Comps(ndim)[i]), u |-> Mono(0, 1, 0)]]
      vel == [i \in 1..ndim |-> [n |-> C("v", Comps(ndim)[i]), u |-> Mono(0, 1, -1)]]
      ang == [i \in 1..ndim |-> [n |-> C("l", Comps(ndim)[i]), u |-> Mono(1, 2, -1)]]
      base == <<[n |-> N("id"), u |-> One], [n |-> N("msink"), u |-> Mono(1, 0, 0)]>>
      tail == <<[n |-> N("age"), u |-> Mono(0, 0, 1)], [n |-> N("level"), u |-> One], [n |-> N("dmf"), u |-> Mono(1, 0, -1)], [n |-> N("rho"), u |-> Mono(1, -3, 0)]>>
      legacy == <<[n |-> N("id"), u |-> <<"legacy1">>], [n |-> N("msink"), u |-> <<"legacy", "M_sun">>]>>
                \o [i \in 1..ndim |-> [n |-> C("", Comps(ndim)[i]), u |-> <<"legacy", "au">>]]
                \o <<[n |-> N("tform"), u |-> <<"legacy", "yr">>]>>
  IN { base \o pos \o vel \o tail, base \o pos, base \o tail, base \o vel \o ang, tail \o pos \o base,
       base \o SubSeq(pos, 1, ndim - 1) \o vel,                \* incomplete component set: stays scalar
       legacy, base \o pos \o <<[n |-> C("v", "x"), u |-> Mono(0, 1, -1)]>>,
       <<[n |-> N("msink"), u |-> Mono(1, 0, 0)]>> }                 \* a single column: still one row per sink

\* ---- expected group
HasAll(cols, p, s, ndim) == \A i \in 1..ndim : \E k \in 1..Len(cols) : cols[k].n = <<p, Comps(ndim)[i], s>>
IsComp(cols, k, ndim) == ndim > 1 /\ cols[k].n[2] # "" /\ HasAll(cols, cols[k].n[1], cols[k].n[3], ndim)
RawName(n) == LET r == n[1] \o n[3] IN IF r = "" THEN "position" ELSE r
Expected(cols, ndim, nsink) ==
  [scalars |-> {Text(cols[k].n) : k \in {j \in 1..Len(cols) : ~IsComp(cols, j, ndim)}},
   vectors |-> {[name |-> RawName(cols[k].n), comps |-> [i \in 1..ndim |-> Text(<<cols[k].n[1], Comps(ndim)[i], cols[k].n[3]>>)]]
                  : k \in {j \in 1..Len(cols) : IsComp(cols, j, ndim) /\ cols[j].n[2] = "x"}},
   cols |-> [k \in 1..Len(cols) |-> [name |-> Text(cols[k].n), unit |-> cols[k].u, cell |-> CellText(cols[k].u)]],
   nsink |-> nsink]

VARIABLES ndim, nsink, cols
vars == <<ndim, nsink, cols>>
Init == ndim = 0 /\ nsink = 0 /\ cols = <<>>
Next == ndim = 0 /\ ndim' \in 1..3 /\ nsink' \in 1..3 /\ cols' \in ColumnSets(ndim')
\* structural properties of the expectation
NoNameLost == ndim > 0 => LET e == Expected(cols, ndim, nsink) IN
                 Cardinality(e.scalars) + ndim * Cardinality(e.vectors) = Len(cols)
VectorsComplete == ndim > 0 => \A v \in Expected(cols, ndim, nsink).vectors : Len(v.comps) = ndim /\ ndim > 1
Emit == ndim = 0 \/ PrintT(ToJson([ndim |-> ndim, nsink |-> nsink, exp |-> Expected(cols, ndim, nsink)]))
====
